#!/usr/bin/env python3
"""usage: python3 check.py <property id> [--tier quick|thorough]
exit 0 = property held on everything explored (known findings printed); 1 = VIOLATION (replayed natively); 2 = inconclusive."""
import sys, os
sys.path.insert(0, os.path.dirname(os.path.abspath(__file__)))
def main():
    import threading
    args = sys.argv[1:]
    pid = args[0]
    tier = os.environ.get("VERIF_TIER", "quick")
    if "--tier" in args: tier = args[args.index("--tier") + 1]
    seed = int(os.environ.get("VERIF_SEED", "0"))
    from vf import props, engine
    cfg = props.PROPS[pid]
    rc = engine.run_property(pid, cfg, tier, seed)
    sys.exit(rc)
if __name__ == "__main__":
    main()
