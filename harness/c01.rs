//! C01 — reads return the latest successful write (single-node key-value semantics): one inductive step from an
//! arbitrary valid pre-state of the key, compared with a plain-map reference
use crate::bo::*;
use crate::harness::common::*;
use crate::process_request::process_request;

fn install(n: &Node, key: &str, st: usize, v0: &String, cur: i32, vaddr: u64, kaddr: u64) {
    // representation invariant of the store: New => never written to disk (offsets 0); Deleted => value "<Empty>"
    if st == 1 { poke(&n.dbs, "d", key, v0, cur, ValueStatus::New, 0, 0); }
    else if st == 2 { poke(&n.dbs, "d", key, v0, cur, ValueStatus::Ok, vaddr, kaddr); }
    else if st == 3 { poke(&n.dbs, "d", key, v0, cur, ValueStatus::Updated, vaddr, kaddr); }
    else if st == 4 { poke(&n.dbs, "d", key, &String::from("<Empty>"), cur, ValueStatus::Deleted, vaddr, kaddr); }
}
fn invariant(v: &Value) -> bool {
    (match v.state { ValueStatus::New => v.value_disk_addr == 0 && v.key_disk_addr == 0, ValueStatus::Deleted => v.value == "<Empty>", _ => true })
}

pub fn c01_step() {
    let n = mk_primary();
    mk_db(&n.dbs, "d", "none");
    let admin = vsym::param("admin", 0) == 1;
    let (mut c, mut rx) = db_client(&n.dbs, "d");
    if admin { process_request("auth user pwd", &n.dbs, &mut c); drain(&mut rx); }
    // pre-state: target key k in one of {absent, New, Ok, Updated, Deleted}; neighbour key "kn" live
    let st = vsym::choice("state", 5);
    vsym::tag_i("state", st as i64);
    let v0 = vsym::any_str("v0", 4);
    let cur = vsym::any_i32("cur"); vsym::assume(cur >= 1 && cur < 1_000_000);
    let vaddr = vsym::any_u64("vaddr"); let kaddr = vsym::any_u64("kaddr");
    vsym::assume(v0 != "<Empty>" || st == 4);   // a live key never holds the tombstone marker (set refuses nothing here: see note in DESIGN)
    install(&n, "k", st, &v0, cur, vaddr, kaddr);
    poke(&n.dbs, "d", "kn", &String::from("nv"), 3, ValueStatus::Ok, 40, 50);
    let live = st >= 1 && st <= 3;
    let op = vsym::choice("op", 7);
    vsym::tag_i("op", op as i64);
    if op == 0 {
        let r = process_request("get k", &n.dbs, &mut c);
        let expect = if live { v0.clone() } else { String::from("<Empty>") };
        match r { Response::Value { key: _, value, version: _ } => vsym::check("get.value", value == expect), _ => vsym::check("get.answered", false) }
        let lines = drain(&mut rx);
        vsym::check("get.line", lines.len() == 1 && lines[0] == ["value ", &expect, "\n"].concat());
    } else if op == 1 {
        let r = process_request("get-safe k", &n.dbs, &mut c);
        let expect = if live { v0.clone() } else { String::from("<Empty>") };
        match r { Response::Value { key: _, value, version } => { vsym::check("getsafe.value", value == expect); if live { vsym::check("getsafe.version", version == cur); } }, _ => vsym::check("getsafe.answered", false) }
    } else if op == 2 {
        let v = vsym::any_str("v", 4);
        vsym::assume(v != "<Empty>" && !v.contains(";"));   // ';' terminates a command on the wire
        let r = process_request(&["set k ", &v].concat(), &n.dbs, &mut c);
        vsym::check("set.ok", is_ok(&r));
        let a = peek(&n.dbs, "d", "k").unwrap();
        vsym::check("set.stored", a.value == v && a.state != ValueStatus::Deleted);
        vsym::check("set.invariant", invariant(&a));
        match process_request("get k", &n.dbs, &mut c) { Response::Value { key: _, value, version: _ } => vsym::check("set.then-get", value == v), _ => vsym::check("set.then-get", false) }
    } else if op == 3 {
        let ver = vsym::any_i32("ver"); vsym::assume(ver >= -1 && ver < 1_000_000);
        let r = process_request(&["set-safe k ", &ver.to_string(), " sv"].concat(), &n.dbs, &mut c);
        let a = peek(&n.dbs, "d", "k");
        if st == 0 { vsym::check("setsafe.absent-accepted", is_ok(&r)); }
        if is_ok(&r) { let a = a.unwrap(); vsym::check("setsafe.stored", a.value == "sv" && a.state != ValueStatus::Deleted); vsym::check("setsafe.invariant", invariant(&a)); }
        else if st != 0 { let a = a.unwrap(); vsym::check("setsafe.refused-changes-nothing", a.version == cur && a.value == (if st == 4 { String::from("<Empty>") } else { v0.clone() })); }
    } else if op == 4 {
        let r = process_request("remove k", &n.dbs, &mut c);
        vsym::check("remove.ok", is_ok(&r));
        match peek(&n.dbs, "d", "k") { Some(a) => { vsym::check("remove.tombstone", a.state == ValueStatus::Deleted); vsym::check("remove.invariant", invariant(&a)); }, None => {} }
        match process_request("get k", &n.dbs, &mut c) { Response::Value { key: _, value, version: _ } => vsym::check("remove.then-get-empty", value == "<Empty>"), _ => vsym::check("remove.then-get-empty", false) }
        match process_request("keys k*", &n.dbs, &mut c) { Response::Value { key: _, value, version: _ } => vsym::check("remove.not-listed", value == ",kn"), _ => vsym::check("remove.not-listed", false) }
    } else if op == 5 {
        let inc = vsym::any_i32("inc"); vsym::assume(inc > -100_000 && inc < 100_000);
        let r = process_request(&["increment k ", &inc.to_string()].concat(), &n.dbs, &mut c);
        // reference: absent or removed = 0; integer value = value + inc; anything else refused and unchanged
        let base: Option<i32> = if live { match v0.parse::<i32>() { Ok(b) => Some(b), Err(_) => None } } else { Some(0) };
        match base {
            Some(b) => {
                vsym::assume(b > -100_000_000 && b < 100_000_000);
                vsym::check("inc.accepted", is_ok(&r));
                if is_ok(&r) {
                    let a = peek(&n.dbs, "d", "k").unwrap();
                    vsym::check("inc.adds-exactly", a.value == (b + inc).to_string());
                    vsym::check("inc.invariant", invariant(&a));
                }
            }
            None => {
                vsym::check("inc.non-numeric-refused", is_error(&r));
                let a = peek(&n.dbs, "d", "k").unwrap();
                vsym::check("inc.refused-changes-nothing", a.value == v0 && a.version == cur);
            }
        }
    } else {
        // keys with a prefix / suffix / contains pattern over the keys {k?, kn, $$token, $connections}
        let pk = vsym::choice("pattern", 5);
        vsym::tag_i("pattern", pk as i64);
        let pat = match pk { 0 => "k*", 1 => "*n", 2 => "k", 3 => "", _ => "$$*" };
        let r = process_request(&["keys ", pat].concat(), &n.dbs, &mut c);
        // reference: live keys, visible to this session, matching the pattern ("p*" prefix, "*s" suffix, otherwise contains), sorted
        let mut expect: Vec<&str> = Vec::new();
        let universe = ["$$token", "$connections", "k", "kn"];
        for key in universe.iter() {
            let is_live = if *key == "k" { live } else { true };
            let visible = admin || !key.starts_with("$$");
            let m = if pat.ends_with("*") { key.starts_with(&pat[..pat.len() - 1]) } else if pat.starts_with("*") { key.ends_with(&pat[1..]) } else { key.contains(pat) };
            if is_live && visible && m { expect.push(key); }
        }
        let mut s = String::new();
        for e in expect.iter() { s = [&s, ",", e].concat(); }
        match r { Response::Value { key: _, value, version: _ } => vsym::check("keys.exactly-live-matching-sorted", value == s), _ => vsym::check("keys.answered", false) }
    }
    // link to the disk (C06): a key that has a record on disk (pre-state Ok / Updated / Deleted) keeps its entry and the offset of
    // that record through every command - otherwise the next incremental snapshot cannot update or tombstone the record and the
    // old value comes back after a restart
    if st >= 2 {
        match peek(&n.dbs, "d", "k") {
            Some(a) => vsym::check("persisted-key.keeps-its-disk-record", a.key_disk_addr == kaddr && a.state != ValueStatus::New),
            None => vsym::check("persisted-key.keeps-its-disk-record", false),
        }
    }
    // no other key altered
    let nb = peek(&n.dbs, "d", "kn").unwrap();
    vsym::check("neighbour.untouched", nb.value == "nv" && nb.version == 3 && nb.state == ValueStatus::Ok && nb.value_disk_addr == 40 && nb.key_disk_addr == 50);
}
