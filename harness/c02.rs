//! C02 — set-safe is an atomic compare-and-set; versions only grow; no lost update
use crate::bo::*;
use crate::harness::common::*;
use crate::process_request::process_request;

/// sequential part: one versioned / plain write or increment against an arbitrary resident or absent key
pub fn c02_seq() {
    let n = mk_primary();
    create_db(&n.dbs, "d", "none");
    let (mut c, mut rx) = db_client(&n.dbs, "d");
    let present = vsym::any_bool("present");
    let cur = vsym::any_i32("cur");
    let v0 = vsym::any_str("v0", 4);
    vsym::assume(cur >= 1 && cur < i32::MAX);
    if present {
        let st = vsym::choice("state", 3);           // New / Ok / Updated (tombstones: see C01)
        vsym::tag_i("state", st as i64);
        poke(&n.dbs, "d", "k", &v0, cur, state_of(st), 0, 0);
    }
    let op = vsym::choice("op", 3);
    vsym::tag_i("op", op as i64);
    if op == 0 {
        // set-safe k <ver> x
        let ver = vsym::any_i32("ver");
        vsym::assume(ver >= -1);
        let cmd = ["set-safe k ", &ver.to_string(), " x"].concat();
        let r = process_request(&cmd, &n.dbs, &mut c);
        let after = peek(&n.dbs, "d", "k");
        let accepted = is_ok(&r);
        if present {
            vsym::check("setsafe.accept-iff-not-older", accepted == (ver == -1 || ver >= cur));
            vsym::cover("setsafe.refused", !accepted);
            vsym::cover("setsafe.accepted", accepted);
            let a = after.unwrap();
            if accepted {
                vsym::check("setsafe.version-grows", a.version > cur);
                vsym::check("setsafe.value-stored", a.value == "x");
            } else {
                vsym::check("setsafe.refusal-is-version-error", is_version_error(&r));
                vsym::check("setsafe.refusal-unchanged", a.value == v0 && a.version == cur);
            }
        } else {
            vsym::check("setsafe.absent-always-accepted", accepted);
            let a = after.unwrap();
            vsym::check("setsafe.absent-stored", a.value == "x");
        }
    } else if op == 1 {
        let r = process_request("set k y", &n.dbs, &mut c);
        vsym::check("set.accepted", is_ok(&r));
        let a = peek(&n.dbs, "d", "k").unwrap();
        vsym::check("set.value-stored", a.value == "y");
        if present { vsym::check("set.version-grows", a.version > cur); }
    } else {
        // increment of a numeric value
        let base = vsym::any_i32("base");
        let inc = vsym::any_i32("inc");
        vsym::assume(base > -1000 && base < 1000 && inc > -1000 && inc < 1000);
        if present { poke(&n.dbs, "d", "k", &base.to_string(), cur, ValueStatus::Ok, 0, 0); }
        let cmd = ["increment k ", &inc.to_string()].concat();
        let r = process_request(&cmd, &n.dbs, &mut c);
        vsym::check("inc.accepted", is_ok(&r));
        let a = peek(&n.dbs, "d", "k").unwrap();
        if present {
            vsym::check("inc.value", a.value == (base + inc).to_string());
            vsym::check("inc.version-grows", a.version > cur);
        } else {
            vsym::check("inc.value-absent", a.value == inc.to_string());
        }
    }
}
