//! C02 — set-safe is an atomic compare-and-set; versions only grow; no lost update
use crate::bo::*;
use crate::harness::common::*;
use crate::process_request::process_request;

/// sequential part: one versioned / plain write or increment against an arbitrary resident or absent key
pub fn c02_seq() {
    let n = mk_primary();
    mk_db(&n.dbs, "d", "none");
    let (mut c, mut rx) = db_client(&n.dbs, "d");
    let present = vsym::any_bool("present");
    let cur = vsym::any_i32("cur");
    let v0 = vsym::any_str("v0", 4);
    vsym::assume(cur >= 1 && cur < i32::MAX);
    if present {
        let st = vsym::choice("state", 3);           // New / Ok / Updated (tombstones: see C01)
        vsym::tag_i("state", st as i64);
        poke(&n.dbs, "d", "k", &v0, cur, state_of(st), 0, 0);
    }
    let op = vsym::choice("op", 3);
    vsym::tag_i("op", op as i64);
    if op == 0 {
        // set-safe k <ver> x
        let ver = vsym::any_i32("ver");
        vsym::assume(ver >= -1);
        let cmd = ["set-safe k ", &ver.to_string(), " x"].concat();
        let r = process_request(&cmd, &n.dbs, &mut c);
        let after = peek(&n.dbs, "d", "k");
        let accepted = is_ok(&r);
        if present {
            vsym::check("setsafe.accept-iff-not-older", accepted == (ver == -1 || ver >= cur));
            vsym::cover("setsafe.refused", !accepted);
            vsym::cover("setsafe.accepted", accepted);
            let a = after.unwrap();
            if accepted {
                vsym::check("setsafe.version-grows", a.version > cur);
                vsym::check("setsafe.value-stored", a.value == "x");
            } else {
                vsym::check("setsafe.refusal-is-version-error", is_version_error(&r));
                vsym::check("setsafe.refusal-unchanged", a.value == v0 && a.version == cur);
            }
        } else {
            vsym::check("setsafe.absent-always-accepted", accepted);
            let a = after.unwrap();
            vsym::check("setsafe.absent-stored", a.value == "x");
        }
    } else if op == 1 {
        let r = process_request("set k y", &n.dbs, &mut c);
        vsym::check("set.accepted", is_ok(&r));
        let a = peek(&n.dbs, "d", "k").unwrap();
        vsym::check("set.value-stored", a.value == "y");
        if present { vsym::check("set.version-grows", a.version > cur); }
    } else {
        // increment of a numeric value
        let base = vsym::any_i32("base");
        let inc = vsym::any_i32("inc");
        vsym::assume(base > -1000 && base < 1000 && inc > -1000 && inc < 1000);
        if present { poke(&n.dbs, "d", "k", &base.to_string(), cur, ValueStatus::Ok, 0, 0); }
        let cmd = ["increment k ", &inc.to_string()].concat();
        let r = process_request(&cmd, &n.dbs, &mut c);
        vsym::check("inc.accepted", is_ok(&r));
        let a = peek(&n.dbs, "d", "k").unwrap();
        if present {
            vsym::check("inc.value", a.value == (base + inc).to_string());
            vsym::check("inc.version-grows", a.version > cur);
        } else {
            vsym::check("inc.value-absent", a.value == inc.to_string());
        }
    }
}

/// schedule part: two clients, one command each, on one shared key; all interleavings at lock-acquisition granularity
pub fn c02_race2() {
    use vstd::sync::Arc;
    let n = mk_primary();
    mk_db(&n.dbs, "d", "none");
    let cur = vsym::any_i32("cur");
    vsym::assume(cur >= 1 && cur < 1000);
    poke(&n.dbs, "d", "k", &String::from("5"), cur, ValueStatus::Ok, 0, 0);
    let a = vsym::choice("opA", 4); let b = vsym::choice("opB", 4);
    vsym::tag_i("opA", a as i64); vsym::tag_i("opB", b as i64);
    let d1 = n.dbs.clone(); let d2 = n.dbs.clone();
    let (mut c1, _rx1) = db_client(&n.dbs, "d"); let (mut c2, _rx2) = db_client(&n.dbs, "d");
    quiet_client(&c1); quiet_client(&c2); quiet_node(&n.dbs);
    let t1 = vsym::spawn(move || { let r = run_op(&d1, &mut c1, a, cur, "a"); (r, if a == 2 { read_pair(&d1, &mut c1) } else { None }) });
    let t2 = vsym::spawn(move || { let r = run_op(&d2, &mut c2, b, cur, "b"); (r, if b == 2 { read_pair(&d2, &mut c2) } else { None }) });
    let (ra, pa) = vsym::join(t1); let (rb, pb) = vsym::join(t2);
    let fin = peek(&n.dbs, "d", "k").unwrap();
    // a get-safe answers a (value, version) pair the key really had at some moment: with one concurrent writer that is the pair
    // before or the pair after its write - never the value of one and the version of the other
    for p in [pa, pb].iter() {
        if let Some((v, ver)) = p {
            vsym::check("race.get-safe-pair-existed", (v == "5" && *ver == cur) || (*v == fin.value && *ver == fin.version));
            vsym::cover("race.get-safe-read", true);
        }
    }
    // two writers presenting the same base version never both succeed
    if a == 0 && b == 0 { vsym::check("race.same-base-one-winner", !(ra && rb)); vsym::cover("race.one-winner", ra != rb); }
    // linearizability against the two sequential orders of the reference map
    let (a1, b1, v1, ver1) = seq_model(a, b, cur, true);
    let (a2, b2, v2, ver2) = seq_model(a, b, cur, false);
    let m1 = ra == a1 && rb == b1 && fin.value == v1 && fin.version == ver1;
    let m2 = ra == a2 && rb == b2 && fin.value == v2 && fin.version == ver2;
    vsym::check("race.linearizable", m1 || m2);
}
/// op 0: set-safe k <cur> <tag>; op 1: set k <tag>; op 2: get-safe k (always succeeds); op 3: increment k
fn run_op(dbs: &vstd::sync::Arc<Databases>, c: &mut Client, op: usize, cur: i32, tag: &str) -> bool {
    if op == 0 { is_ok(&process_request(&["set-safe k ", &cur.to_string(), " ", tag].concat(), dbs, c)) }
    else if op == 1 { is_ok(&process_request(&["set k ", tag].concat(), dbs, c)) }
    else if op == 3 { is_ok(&process_request("increment k", dbs, c)) }
    else { match process_request("get-safe k", dbs, c) { Response::Value { .. } => true, _ => false } }
}
/// a second get-safe by the same client: the (value, version) pair it is answered
fn read_pair(dbs: &vstd::sync::Arc<Databases>, c: &mut Client) -> Option<(String, i32)> {
    match process_request("get-safe k", dbs, c) { Response::Value { key: _, value, version } => Some((value, version)), _ => None }
}
/// reference map: run A then B (a_first) or B then A; returns (okA, okB, final value, final version)
fn seq_model(a: usize, b: usize, cur: i32, a_first: bool) -> (bool, bool, String, i32) {
    let mut val = String::from("5"); let mut ver = cur;
    let mut ok = [true, true];
    let order = if a_first { [(0usize, a, "a"), (1usize, b, "b")] } else { [(1usize, b, "b"), (0usize, a, "a")] };
    for (who, op, tag) in order.iter() {
        if *op == 0 { if cur >= ver { val = String::from(*tag); ver = cur + 1; } else { ok[*who] = false; } }
        else if *op == 1 { val = String::from(*tag); ver = ver + 1; }
        else if *op == 3 { match val.parse::<i32>() { Ok(x) => { val = (x + 1).to_string(); ver = ver + 1; } Err(_) => { ok[*who] = false; } } }
    }
    (ok[0], ok[1], val, ver)
}

/// a client write racing a snapshot of the same database (the snapshot is itself requested by a client command and runs on the
/// declutter thread): the snapshot clones the keys to store, writes them and then marks them as persisted in memory; a write
/// acknowledged while it runs must not be lost - neither from memory nor, after the next snapshot and a restart, from disk.
/// All interleavings at lock-acquisition granularity.
pub fn c02_snapshot_race() {
    use crate::disk_ops::snapshot_all_pendding_dbs;
    // storage strategy: 0 disk (default), 1 s3, 2 s3_patition with one partition (C18 runs the same race over the S3 stub)
    let strategy = vsym::param("strategy", 0);
    if strategy != 0 { unsafe { vstd::vfs::ENV.push(("NUN_STORAGE_STRATEGY", if strategy == 1 { "s3" } else { "s3_patition" })); vstd::vfs::ENV.push(("NUN_S3_NUMBER_OF_PARTITIONS", "1")); } }
    let n = mk_primary();
    mk_db(&n.dbs, "d", "none");
    let (mut admin, mut arx) = admin_client(&n.dbs);
    process_request("use-db d tok", &n.dbs, &mut admin);
    let pre = vsym::choice("pre-state", 3);     // 0: k persisted and unchanged (Ok), 1: k persisted then updated (Updated), 2: k never persisted (New)
    vsym::tag_i("pre-state", pre as i64);
    if pre <= 1 { process_request("set k v0", &n.dbs, &mut admin); process_request("snapshot false", &n.dbs, &mut admin); snapshot_all_pendding_dbs(&n.dbs); }
    if pre >= 1 { process_request("set k v1", &n.dbs, &mut admin); }
    let reclaim = vsym::any_bool("reclaim");
    vsym::tag(if reclaim { "snapshot-true" } else { "snapshot-false" });
    vsym::assume(is_ok(&process_request(if reclaim { "snapshot true" } else { "snapshot false" }, &n.dbs, &mut admin)));
    let before = peek(&n.dbs, "d", "k");
    let (mut c, _rx) = db_client(&n.dbs, "d");
    quiet_client(&c); quiet_node(&n.dbs);
    let d1 = n.dbs.clone(); let d2 = n.dbs.clone();
    // (the S3 strategies load tombstones as live keys - recorded under C18 - so the remove variant is for the disk strategy)
    let removes = if strategy == 0 { vsym::any_bool("client-removes") } else { false };
    // the client may also remove the key and write it again (a key that was never stored restarts at version 0: the re-created
    // key can carry the very version the snapshot copied)
    let recreates = if strategy == 0 && !removes && pre == 2 { vsym::any_bool("client-removes-then-writes") } else { false };
    vsym::tag(if removes { "client-removes" } else if recreates { "client-removes-then-writes" } else { "client-writes" });
    let t1 = vsym::spawn(move || {
        if recreates { process_request("remove k", &d1, &mut c); }
        is_ok(&process_request(if removes { "remove k" } else { "set k w" }, &d1, &mut c))
    });
    let t2 = vsym::spawn(move || { snapshot_all_pendding_dbs(&d2); true });
    let acked = vsym::join(t1); vsym::join(t2);
    vsym::check("snapshot-race.write-acknowledged", acked);
    let (mut r, mut rrx) = db_client(&n.dbs, "d");
    let seen = match process_request("get k", &n.dbs, &mut r) { Response::Value { key: _, value, version: _ } => value, _ => String::from("?") };
    vsym::check("snapshot-race.acknowledged-write-survives-in-memory", seen == (if removes { "<Empty>" } else { "w" }));
    if !removes && !recreates { if let Some(b) = &before { vsym::check("snapshot-race.version-not-reverted", peek(&n.dbs, "d", "k").unwrap().version > b.version); } }
    // the next snapshot must pick the write up: restart and read
    process_request(if strategy == 1 { "snapshot true" } else { "snapshot false" }, &n.dbs, &mut admin); snapshot_all_pendding_dbs(&n.dbs);
    let n2 = restart_node("n1");
    let live = match peek(&n2.dbs, "d", "k") { Some(g) => if g.state != ValueStatus::Deleted { Some(g.value.clone()) } else { None }, None => None };
    vsym::check("snapshot-race.acknowledged-write-on-disk-after-next-snapshot", if removes { live.is_none() } else { live == Some(String::from("w")) });
    vsym::cover("snapshot-race.done", true);
}
