//! C03 — watchers get every committed change, only committed changes, and end up current
use crate::bo::*;
use crate::harness::common::*;
use crate::process_request::process_request;
use futures::channel::mpsc::Receiver;

fn count_prefix(lines: &Vec<String>, p: &str) -> usize { let mut n = 0; for l in lines.iter() { if l.starts_with(p) { n += 1; } } n }

/// sequential histories: one observed subscriber S of key k, another client O (watch / unwatch / unwatch-all / dies with a
/// stale registration), a writer; after every writer step S's inbox must hold exactly the notifications the step owes it
pub fn c03_seq() {
    let n = mk_primary();
    mk_db(&n.dbs, "d", "none");
    let (mut w, mut wrx) = db_client(&n.dbs, "d");
    process_request("set k 5", &n.dbs, &mut w);            // version 0
    let (mut s, mut srx) = db_client(&n.dbs, "d");
    let mut subscribed = false;
    // S may send `watch k` again while subscribed (a second registration); whatever that means for the number of notifications per
    // write (not judged here), its unwatch / unwatch-all / disconnect ends ALL of them
    let mut regs = 0;
    let mut other: Option<(Client, Receiver<String>)> = Some(db_client(&n.dbs, "d"));
    let steps = vsym::param("events", 4);
    let mut i = 0;
    while i < steps {
        let ev = vsym::choice("event", 12);
        vsym::tag(&["e", &i.to_string(), "=", &ev.to_string()].concat());
        drain(&mut srx);
        let cur = peek(&n.dbs, "d", "k");
        match ev {
            0 => { if regs < 2 { let r = process_request("watch k", &n.dbs, &mut s); vsym::check("watch.ok", is_ok(&r)); subscribed = true; regs += 1; vsym::cover("watch.twice", regs == 2); } }
            1 => { process_request("unwatch k", &n.dbs, &mut s); subscribed = false; regs = 0; }
            2 => { process_request("unwatch-all", &n.dbs, &mut s); subscribed = false; regs = 0; }
            3 => { if let Some((o, _)) = other.as_mut() { process_request("watch k", &n.dbs, o); } }
            4 => { if let Some((o, _)) = other.as_mut() { process_request("unwatch-all", &n.dbs, o); } }
            5 => { if let Some((o, _)) = other.as_mut() { process_request("unwatch k", &n.dbs, o); } }
            6 => {
                // the other client disappears: its receiver is gone; whether its registrations were cleaned depends on the transport
                // sequence having reached this database (a session that switched database leaves them behind)
                if let Some((mut o, orx)) = other.take() { drop(orx); if vsym::any_bool("cleaned-up") { process_request("unwatch-all", &n.dbs, &mut o); } o.left(&n.dbs); }
            }
            7 | 8 | 9 | 10 | 11 => {
                let line = match ev {
                    7 => String::from("set k 7"),
                    8 => { let v = vsym::any_i32("ver"); vsym::assume(v >= -1 && v <= 4); ["set-safe k ", &v.to_string(), " 8"].concat() }
                    9 => String::from("increment k 2"),
                    10 => String::from("remove k"),
                    _ => String::from("set j 1"),
                };
                let r = process_request(&line, &n.dbs, &mut w);
                let got = drain(&mut srx);
                let after = peek(&n.dbs, "d", "k");
                let committed = is_ok(&r);
                if !subscribed || ev == 11 || !committed {
                    vsym::check("notify.nothing-when-not-owed", got.len() == 0);
                } else if regs > 1 {
                    vsym::check("notify.at-least-once-when-registered-twice", got.len() >= 1);
                } else if ev == 10 {
                    vsym::check("notify.one-removed-per-remove", got.len() == 1 && got[0] == "removed k\n");
                } else {
                    let a = after.unwrap();
                    vsym::check("notify.one-pair-per-committed-change", got.len() == 2 && count_prefix(&got, "changed k ") == 1 && count_prefix(&got, "changed-version k ") == 1);
                    if got.len() == 2 { vsym::check("notify.carries-committed-value", got[0] == ["changed k ", &a.value, "\n"].concat()); }
                    vsym::cover("notify.delivered", true);
                }
            }
            _ => {}
        }
        i += 1;
    }
}

/// schedule part: subscriber A registers for k while another client B (which watched k and j) disconnects (unwatch-all)
/// and a writer writes k; all lock-level interleavings. A's registration must survive, and A must see the final value.
pub fn c03_race() {
    let n = mk_primary();
    mk_db(&n.dbs, "d", "none");
    let (mut w, mut wrx) = db_client(&n.dbs, "d");
    process_request("set k 5", &n.dbs, &mut w);
    let (mut a, mut arx) = db_client(&n.dbs, "d");
    let (mut b, mut brx) = db_client(&n.dbs, "d");
    process_request("watch k", &n.dbs, &mut b); process_request("watch j", &n.dbs, &mut b);
    quiet_client(&a); quiet_client(&b); quiet_client(&w); quiet_node(&n.dbs);
    let mode = vsym::param("mode", 0);         // 0: A registers while B disconnects; 1: A registers while a writer writes
    let with_writer = mode == 1;
    let d1 = n.dbs.clone(); let d2 = n.dbs.clone(); let d3 = n.dbs.clone();
    let t1 = vsym::spawn(move || { let r = process_request("watch k", &d1, &mut a); (a, is_ok(&r)) });
    let t2 = vsym::spawn(move || { if mode == 0 { process_request("unwatch-all", &d2, &mut b); b.left(&d2); } true });
    let t3 = vsym::spawn(move || { if with_writer { process_request("set k 6", &d3, &mut w); } w });
    let (mut a, ok) = vsym::join(t1); vsym::join(t2); let mut w = vsym::join(t3);
    vsym::check("race.watch-acknowledged", ok);
    drain(&mut arx);
    // writes that start after the acknowledgement must reach A
    process_request("set k 9", &n.dbs, &mut w);
    let got = drain(&mut arx);
    vsym::check("race.registration-survives-other-clients-disconnect", got.len() == 2 && got[0] == "changed k 9\n");
    // B is gone: nothing may be queued for it after its disconnect completed
    vsym::check("race.nothing-for-the-disconnected", drain(&mut brx).len() == 0 || with_writer);
}

/// a slow subscriber: more than the channel's buffer (100) of unread notifications, then remove / set / remove: every remove
/// still owes one `removed` notification (the bounded queue gives every fresh sender clone one guaranteed slot)
pub fn c03_backlog() {
    let n = mk_primary();
    mk_db(&n.dbs, "d", "none");
    let (mut w, mut wrx) = db_client(&n.dbs, "d");
    let (mut s, mut srx) = db_client(&n.dbs, "d");
    process_request("watch k", &n.dbs, &mut s);
    drain(&mut srx);
    let mut i = 0;
    while i < 51 { process_request(&["set k v", &i.to_string()].concat(), &n.dbs, &mut w); i += 1; }
    process_request("remove k", &n.dbs, &mut w);
    process_request("set k x", &n.dbs, &mut w);
    process_request("remove k", &n.dbs, &mut w);
    let got = drain(&mut srx);
    let mut removed = 0; let mut changed = 0;
    for l in got.iter() { if l == "removed k\n" { removed += 1; } if l.starts_with("changed k ") { changed += 1; } }
    vsym::check("backlog.one-removed-per-remove", removed == 2);
    vsym::check("backlog.one-changed-per-set", changed == 52);
}
