//! C04 — live replication converges: every node ends equal to the primary
use crate::bo::*;
use crate::harness::cluster::*;
use crate::harness::common::*;
use crate::process_request::process_request;
use vstd::sync::Arc;

/// every key of every database (except the per-node session counter): value, version, live / removed
pub fn data_dump(dbs: &Arc<Databases>) -> Vec<String> {
    let mut out: Vec<String> = Vec::new();
    let m = dbs.map.read().unwrap();
    let mut names: Vec<String> = m.keys().map(|k| k.clone()).collect(); names.sort();
    for name in names.iter() {
        let db = m.get(name).unwrap();
        out.push(["db ", name, " ", &db.metadata.consensus_strategy.to_string()].concat());
        let dm = db.map.read().unwrap();
        let mut keys: Vec<String> = dm.keys().map(|k| k.clone()).collect(); keys.sort();
        for k in keys.iter() {
            if k == "$connections" { continue; }
            let v = dm.get(k).unwrap();
            if v.state == ValueStatus::Deleted { out.push(["  ", name, "/", k, " removed"].concat()); }
            else { out.push(["  ", name, "/", k, " = ", &v.value, " @", &v.version.to_string()].concat()); }
        }
    }
    out
}
/// removed keys may be tombstones on one node and absent on another: compare live keys only, plus "not live" for the rest
pub fn live_dump(dbs: &Arc<Databases>) -> Vec<String> { data_dump(dbs).into_iter().filter(|l| !l.ends_with(" removed")).collect() }
/// live keys with their values, versions left out
pub fn value_dump(dbs: &Arc<Databases>) -> Vec<String> {
    let mut out: Vec<String> = Vec::new();
    let m = dbs.map.read().unwrap();
    let mut names: Vec<String> = m.keys().map(|k| k.clone()).collect(); names.sort();
    for name in names.iter() {
        let db = m.get(name).unwrap();
        let dm = db.map.read().unwrap();
        let mut keys: Vec<String> = dm.keys().map(|k| k.clone()).collect(); keys.sort();
        for k in keys.iter() {
            if k == "$connections" { continue; }
            let v = dm.get(k).unwrap();
            if v.state != ValueStatus::Deleted { out.push([name.as_str(), "/", k, " = ", &v.value].concat()); }
        }
    }
    out
}

pub fn c04_one_op() {
    let secondaries = vsym::param("secondaries", 1);
    let mut cl = mk_cluster(secondaries);
    // common history: database d (strategy none) with key k, created on the primary and replicated
    let (mut admin, mut arx) = admin_client(&cl.nodes[0].dbs);
    process_request(&["create-db d tok ", if vsym::param("newer", 0) == 1 { "newer" } else { "none" }].concat(), &cl.nodes[0].dbs, &mut admin);
    vsym::assume(cl.settle(80, false).is_some());
    let (mut c0, mut r0) = db_client(&cl.nodes[0].dbs, "d");
    process_request("set k 3", &cl.nodes[0].dbs, &mut c0);
    process_request("set k 4", &cl.nodes[0].dbs, &mut c0);
    process_request("set k 5", &cl.nodes[0].dbs, &mut c0);      // version 2: base versions 0 and 1 are stale
    vsym::assume(cl.settle(120, false).is_some());
    let mut i = 1;
    while i < cl.nodes.len() { vsym::assume(same_lines(&live_dump(&cl.nodes[0].dbs), &live_dump(&cl.nodes[i].dbs))); i += 1; }
    // the operation under test, at a solver-chosen node
    let at = vsym::choice("node", cl.nodes.len());
    vsym::tag_i("node", at as i64);
    let op = vsym::choice("op", 9);
    vsym::tag_i("op", op as i64);
    let (mut c, mut rx) = new_client();
    let needs_admin = op >= 5;
    if needs_admin { process_request("auth user pwd", &cl.nodes[at].dbs, &mut c); }
    process_request("use-db d tok", &cl.nodes[at].dbs, &mut c);
    let v = vsym::any_token("v", 3); vsym::assume(v.len() >= 1);
    let cur = peek(&cl.nodes[0].dbs, "d", "k").unwrap().version;
    let line = match op {
        0 => ["set k ", &v].concat(),
        1 => ["set nk ", &v].concat(),
        2 => ["set-safe k ", &cur.to_string(), " ", &v].concat(),
        3 => String::from("remove k"),
        4 => String::from("increment k 2"),
        5 => ["create-user u ", &v].concat(),
        6 => String::from("set-permissions u r a*"),
        7 => ["create-db e ", &v].concat(),
        _ => { let sv = vsym::any_i32("version"); vsym::assume(sv >= -1 && sv <= cur + 1); ["set-safe k ", &sv.to_string(), " ", &v].concat() }
    };
    let r = process_request(&line, &cl.nodes[at].dbs, &mut c);
    vsym::tag(if is_error(&r) { "refused" } else { "accepted" });
    vsym::cover("op.stale-version-accepted-on-newer", op == 8 && !is_error(&r) && vsym::param("newer", 0) == 1);
    let all_orders = vsym::param("orders", 0) == 1;
    let settled = cl.settle(vsym::param("budget", 120), all_orders);
    vsym::check("converge.quiesces", settled.is_some());
    let mut i = 1;
    while i < cl.nodes.len() {
        vsym::check("converge.same-as-primary", same_lines(&live_dump(&cl.nodes[0].dbs), &live_dump(&cl.nodes[i].dbs)));
        // weaker statement that must hold even where the recorded double-apply defect changes versions: same live keys, same values
        vsym::check("converge.same-values-as-primary", same_lines(&value_dump(&cl.nodes[0].dbs), &value_dump(&cl.nodes[i].dbs)));
        i += 1;
    }
    // accounting end-to-end (C15): nothing stays pending with stable membership
    vsym::check("converge.nothing-pending", cl.nodes[0].dbs.pending_opps.read().unwrap().len() == 0);
}

/// snapshots run on every node, each over its OWN disk (the file-system model is swapped per node), interleaved with client
/// operations on the primary: write, snapshot, remove, snapshot (incremental or space-reclaiming), write again. After every step
/// the nodes agree on the key: same value, same version, same live / removed status as seen through get-safe.
fn on_disk(cl: &mut Cluster, disks: &mut Vec<Vec<vstd::vfs::Node>>, i: usize) {
    vstd::vfs::swap_fs(&mut disks[i]);
    crate::disk_ops::snapshot_all_pendding_dbs(&cl.nodes[i].dbs);
    vstd::vfs::swap_fs(&mut disks[i]);
}
fn safe_pair(dbs: &Arc<Databases>) -> (String, i32) {
    let (mut c, _rx) = new_client();
    process_request("use-db d tok", dbs, &mut c);
    match process_request("get-safe k", dbs, &mut c) { Response::Value { key: _, value, version } => (value, version), _ => (String::from("?"), -9) }
}
pub fn c04_snapshot_history() {
    let secondaries = vsym::param("secondaries", 1);
    let mut cl = mk_cluster(secondaries);
    let mut disks: Vec<Vec<vstd::vfs::Node>> = Vec::new();
    let mut i = 0; while i < cl.nodes.len() { disks.push(Vec::new()); i += 1; }
    let (mut admin, mut arx) = admin_client(&cl.nodes[0].dbs);
    process_request("create-db d tok", &cl.nodes[0].dbs, &mut admin);
    vsym::assume(cl.settle(80, false).is_some());
    process_request("use-db d tok", &cl.nodes[0].dbs, &mut admin);
    let steps = vsym::param("steps", 5);
    let mut s = 0;
    while s < steps {
        let op = vsym::choice("step", 5);
        vsym::tag(&["s", &s.to_string(), "=", &op.to_string()].concat());
        match op {
            0 => { process_request(&["set k w", &s.to_string()].concat(), &cl.nodes[0].dbs, &mut admin); }
            1 => { process_request("remove k", &cl.nodes[0].dbs, &mut admin); }
            2 => { process_request("increment k 2", &cl.nodes[0].dbs, &mut admin); }
            _ => { process_request(if op == 3 { "snapshot false" } else { "snapshot true" }, &cl.nodes[0].dbs, &mut admin); }
        }
        vsym::check("snapshot-history.quiesces", cl.settle(200, false).is_some());
        if op >= 3 { let mut n = 0; while n < cl.nodes.len() { on_disk(&mut cl, &mut disks, n); n += 1; } vsym::cover("snapshot-history.snapshots-ran", true); }
        let p = safe_pair(&cl.nodes[0].dbs);
        let mut n = 1;
        while n < cl.nodes.len() {
            let q = safe_pair(&cl.nodes[n].dbs);
            vsym::check("snapshot-history.same-value-as-primary", q.0 == p.0);
            vsym::check("snapshot-history.same-version-as-primary", q.1 == p.1);
            n += 1;
        }
        s += 1;
    }
}
