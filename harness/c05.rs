//! C05 — a (re)joining node resynchronises to exactly the primary's data
use crate::bo::*;
use crate::disk_ops::*;
use crate::harness::c04::*;
use crate::harness::cluster::*;
use crate::harness::common::*;
use crate::process_request::process_request;
use crate::replication_ops::get_pendding_opps_since;
use vstd::sync::Arc;

/// "db/key" of every live key (presence only)
fn live_keys(dbs: &Arc<Databases>) -> Vec<String> {
    let mut out: Vec<String> = Vec::new();
    let m = dbs.map.read().unwrap();
    let mut names: Vec<String> = m.keys().map(|k| k.clone()).collect(); names.sort();
    for name in names.iter() {
        let db = m.get(name).unwrap();
        out.push(["db ", name].concat());
        let dm = db.map.read().unwrap();
        let mut keys: Vec<String> = dm.keys().map(|k| k.clone()).collect(); keys.sort();
        for k in keys.iter() { if k == "$connections" { continue; } if dm.get(k).unwrap().state != ValueStatus::Deleted { out.push([name.as_str(), "/", k].concat()); } }
    }
    out
}

pub fn c05_rejoin() {
    let mut cl = mk_cluster(1);
    let (mut admin, mut arx) = admin_client(&cl.nodes[0].dbs);
    process_request("create-db d tok", &cl.nodes[0].dbs, &mut admin);
    vsym::assume(cl.settle(80, false).is_some());
    let (mut c, mut rx) = db_client(&cl.nodes[0].dbs, "d");
    process_request("set a 1", &cl.nodes[0].dbs, &mut c);
    process_request("set b 2", &cl.nodes[0].dbs, &mut c);
    // a user with a permission list exists in d (stored under $$ keys)
    process_request("use-db d tok", &cl.nodes[0].dbs, &mut admin);
    process_request("create-user bob bt", &cl.nodes[0].dbs, &mut admin);
    process_request("set-permissions bob r a*", &cl.nodes[0].dbs, &mut admin);
    vsym::assume(cl.settle(120, false).is_some());
    vsym::assume(same_lines(&live_dump(&cl.nodes[0].dbs), &live_dump(&cl.nodes[1].dbs)));
    // the secondary goes away here; what it would report as its last operation time is the newest record of the log so far
    let full = vsym::param("full", 0) == 1;
    let since = if full { 0 } else { Oplog::last_op_time() };
    vsym::check("last-op-time.nonzero-after-writes", full || since > 0);
    // while it is away: a solver-chosen history on the primary (the replication loop keeps writing the op-log)
    let steps = vsym::param("ops", 2);
    let mut i = 0;
    while i < steps {
        // mid = 1: the middle operation of three is the creation of a database (records of two databases interleave in the log)
        let op = if vsym::param("mid", 0) == 1 && i == 1 { 4 } else { vsym::choice("op", 6) };
        vsym::tag(&["o", &i.to_string(), "=", &op.to_string()].concat());
        let v = vsym::any_str("value", 3); vsym::assume(v.len() >= 1 && !v.contains(";") && !v.starts_with(" ") && !v.ends_with(" "));
        match op {
            0 => { process_request(&["set a ", &v].concat(), &cl.nodes[0].dbs, &mut c); }
            1 => { process_request(&["set nk ", &v].concat(), &cl.nodes[0].dbs, &mut c); }
            2 => { process_request("remove a", &cl.nodes[0].dbs, &mut c); }
            3 => { process_request("remove nk", &cl.nodes[0].dbs, &mut c); }
            4 => { process_request("create-db e tk arbiter", &cl.nodes[0].dbs, &mut admin); }
            _ => { process_request("increment b 2", &cl.nodes[0].dbs, &mut c); }
        }
        // the primary's own replication loop runs (op-log), nothing is delivered to the absent node
        poll_once(&mut cl.nodes[0].repl);
        let mut l = 0; while l < cl.links.len() { drain(&mut cl.links[l].out_rx); l += 1; }
        i += 1;
    }
    // it comes back: the primary computes the catch-up messages, every message goes through the joiner's parser and handlers
    let msgs = get_pendding_opps_since(since, &cl.nodes[0].dbs);
    // what the returning node holds before the catch-up (a line that is refused leaves it in place)
    let held: Vec<Option<Value>> = vec![peek(&cl.nodes[1].dbs, "d", "a"), peek(&cl.nodes[1].dbs, "d", "b"), if cl.nodes[1].dbs.has_db("d") { peek(&cl.nodes[1].dbs, "d", "nk") } else { None }];
    if vsym::param("empty_joiner", 0) == 1 {
        // a node joining with an empty disk: fresh node, authenticated replication session
        let fresh = mk_cnode("n9", 9, ClusterRole::Secoundary);
        let (mut session, mut srx) = admin_client(&fresh.dbs);
        process_request("set-primary n1", &fresh.dbs, &mut session);      // the primary's replication connection announces itself
        let mut k = 0;
        while k < msgs.len() { process_request(&msgs[k], &fresh.dbs, &mut session); k += 1; }
        cl.nodes[1] = fresh;
    } else {
        let mut k = 0;
        while k < msgs.len() { process_request(&msgs[k], &cl.nodes[1].dbs, &mut cl.links[0].server); k += 1; }
    }
    if vsym::param("trace", 0) == 1 { for l in live_keys(&cl.nodes[0].dbs).iter() { vsym::tag(&["P:", l].concat()); } for l in live_keys(&cl.nodes[1].dbs).iter() { vsym::tag(&["J:", l].concat()); } for m in msgs.iter() { vsym::tag(&["M:", m].concat()); } }
    // independent of what the receiver makes of a line: a catch-up line for a live key of d carries the primary's current value
    {
        let names = ["a", "b", "nk"];
        for key in names.iter() {
            if let Some(p) = peek(&cl.nodes[0].dbs, "d", key) {
                if p.state != ValueStatus::Deleted {
                    let prefix = ["replicate d ", key, " "].concat();
                    let mut k = 0;
                    while k < msgs.len() {
                        if msgs[k].starts_with(&prefix) { vsym::check("resync.catch-up-line-carries-the-primary-value", msgs[k].trim_end_matches("\n").ends_with(&[" ", &p.value].concat())); vsym::cover("resync.catch-up-line-seen", true); }
                        k += 1;
                    }
                }
            }
        }
    }
    vsym::check("resync.same-databases-and-live-keys", same_lines(&live_keys(&cl.nodes[0].dbs), &live_keys(&cl.nodes[1].dbs)));
    // values byte for byte, versions
    let names = ["a", "b", "nk"];
    let mut ki = 0;
    for key in names.iter() {
        let held_value = match &held[ki] { Some(h) => Some(h.value.clone()), None => None }; ki += 1;
        match (peek(&cl.nodes[0].dbs, "d", key), peek(&cl.nodes[1].dbs, "d", key)) {
            (Some(p), Some(j)) => if p.state != ValueStatus::Deleted && j.state != ValueStatus::Deleted {
                vsym::check("resync.value-byte-for-byte", p.value == j.value);
                vsym::check("resync.version", p.version == j.version);
                // independent of the recorded defect (the catch-up line has no version field, the receiver takes the first word of the
                // value for it): what arrives must at least be what that mis-parse predicts - first word dropped
                let predicted = match p.value.split_once(" ") { Some((_first, rest)) => rest.to_string(), None => String::new() };
                // ... and a value whose first word is an integer below -1 makes the receiver refuse the line (reserved versions): it keeps what it held
                let first = match p.value.split_once(" ") { Some((f, _rest)) => f.to_string(), None => p.value.clone() };
                let refused = match first.parse::<i32>() { Ok(n) => n < -1, Err(_) => false };
                let kept = match &held_value { Some(h) => j.value == *h, None => false };
                vsym::check("resync.value-matches-defect-model", j.value == p.value || j.value == predicted || (refused && kept));
            },
            _ => {}
        }
    }
    if cl.nodes[0].dbs.has_db("e") && cl.nodes[1].dbs.has_db("e") {
        let s0 = cl.nodes[0].dbs.map.read().unwrap().get(&String::from("e")).unwrap().metadata.consensus_strategy;
        let s1 = cl.nodes[1].dbs.map.read().unwrap().get(&String::from("e")).unwrap().metadata.consensus_strategy;
        vsym::check("resync.strategy-of-new-database", s0 == s1);
        vsym::check("resync.token-of-new-database", match (peek(&cl.nodes[0].dbs, "e", "$$token"), peek(&cl.nodes[1].dbs, "e", "$$token")) { (Some(a), Some(b)) => a.value == b.value, _ => false });
    }
}

struct SendLoop(Loop);
unsafe impl Send for SendLoop {}
/// "Writes accepted by the primary during the synchronisation are not lost": the primary's REAL supervisor serves a
/// `replicate-since` request of the returning node (full or incremental) while a client write to the same key runs through the
/// primary's real replication loop; all interleavings at lock-acquisition granularity. On the link to the returning node the
/// live copy of the write may be followed by catch-up lines for that key only if they already carry the new value (otherwise
/// the older value overwrites the acknowledged write there). Judged on the link, independently of what the receiver's parser
/// makes of a catch-up line (recorded finding C05-sync-messages-lack-version).
pub fn c05_write_during_sync() {
    let mut cl = mk_cluster(1);
    let (mut admin, mut arx) = admin_client(&cl.nodes[0].dbs);
    process_request("create-db d tok", &cl.nodes[0].dbs, &mut admin);
    vsym::assume(cl.settle(80, false).is_some());
    let (mut c, mut rx) = db_client(&cl.nodes[0].dbs, "d");
    process_request("set a v0", &cl.nodes[0].dbs, &mut c);
    vsym::assume(cl.settle(80, false).is_some());
    let full = vsym::param("full", 1) == 1;
    let since = if full { 0 } else { Oplog::last_op_time() };
    if !full { process_request("set a v1", &cl.nodes[0].dbs, &mut c); vsym::assume(cl.settle(80, false).is_some()); }
    // the returning node asks for what it missed (over its authenticated replication session)
    let r = process_request(&["replicate-since n2 ", &since.to_string()].concat(), &cl.nodes[0].dbs, &mut cl.links[1].server);
    vsym::assume(is_ok(&r));
    let mut l = 0; while l < cl.links.len() { drain(&mut cl.links[l].out_rx); l += 1; }
    let sup = SendLoop(start_supervisor(&mut cl.nodes[0]));
    let dummy: Loop = Box::pin(async {});
    let repl = SendLoop(std::mem::replace(&mut cl.nodes[0].repl, dummy));
    quiet_client(&c); cl.nodes[0].dbs.map.set_quiet(1); cl.nodes[0].dbs.query_ema.set_quiet(2); cl.nodes[0].dbs.replication_ema.set_quiet(2);
    let d2 = cl.nodes[0].dbs.clone();
    // sending a line is a yield point here: the write may land between the moment the catch-up reads the key and the moment its line is queued
    unsafe { futures::channel::mpsc::YIELD_ON_SEND = true; }
    let t1 = vsym::spawn(move || { let mut s = sup; poll_once(&mut s.0); true });
    let t2 = vsym::spawn(move || { let mut rp = repl; let ok = is_ok(&process_request("set a w", &d2, &mut c)); poll_once(&mut rp.0); ok });
    vsym::join(t1); let acked = vsym::join(t2);
    unsafe { futures::channel::mpsc::YIELD_ON_SEND = false; }
    vsym::check("sync-race.write-acknowledged", acked);
    // what travels to the returning node, in order
    let out = drain(&mut cl.links[0].out_rx);
    let mut seen_live = false; let mut k = 0; let mut catch_up_lines = 0;
    while k < out.len() {
        let m = out[k].trim_end_matches("\n").to_string();
        if m.starts_with("rp ") && m.ends_with(" w") { seen_live = true; vsym::cover("sync-race.live-copy-sent", true); }
        else if m.starts_with("replicate d a ") || m == "replicate d a" {
            catch_up_lines += 1;
            if seen_live { vsym::cover("sync-race.catch-up-after-live-copy", true); vsym::check("sync-race.no-older-value-after-the-live-copy", m.ends_with(" w")); }
        }
        k += 1;
    }
    vsym::check("sync-race.catch-up-line-for-the-key", catch_up_lines >= 1);
    vsym::check("sync-race.live-copy-reaches-the-returning-node", seen_live);
}
