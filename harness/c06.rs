//! C06 — snapshot then restart restores exactly the snapshotted state
use crate::bo::*;
use crate::disk_ops::*;
use crate::harness::common::*;
use crate::process_request::process_request;

/// histories over 2 keys (names and values of concrete lengths, symbolic content, symbolic versions through set-safe):
/// {set k0, set k1, remove k0, remove k1, increment n, snapshot incremental, snapshot reclaiming}; then restart and compare
/// with the reference map frozen at the last completed snapshot
/// representation invariant between memory and disk: every key in state Ok remembers the offsets at which its key record
/// and its value record really are (this is what makes the next incremental snapshot safe)
fn offsets_consistent(n: &Node, tag: &str) {
    use vstd::io::{Read, Seek, SeekFrom};
    let m = n.dbs.map.read().unwrap();
    let db = match m.get(&String::from("d")) { Some(d) => d, None => return };
    let entries: Vec<(String, Value)> = { let dm = db.map.read().unwrap(); dm.iter().map(|(k, v)| (k.clone(), v.clone())).collect() };
    let base = crate::storage::disk::file_name_from_db_name(&String::from("d"));
    let mut kf = vstd::fs::File::open([&base, ".keys"].concat()).unwrap();
    let mut vf = vstd::fs::File::open([&base, ".values"].concat()).unwrap();
    for (k, v) in entries.iter() {
        if v.state != ValueStatus::Ok { continue; }
        let mut l8 = [0u8; 8]; let mut v4 = [0u8; 4]; let mut a8 = [0u8; 8];
        kf.seek(SeekFrom::Start(v.key_disk_addr)).unwrap();
        kf.read(&mut l8).unwrap();
        let klen = u64::from_le_bytes(l8);
        vsym::check(&[tag, ".key-offset-points-at-its-record"].concat(), klen == k.len() as u64);
        if klen == k.len() as u64 {
            let mut kb = vec![0u8; k.len()]; kf.read(&mut kb).unwrap();
            vsym::check(&[tag, ".key-record-names-the-key"].concat(), String::from_utf8(kb).unwrap() == *k);
            kf.read(&mut v4).unwrap(); kf.read(&mut a8).unwrap();
            vsym::check(&[tag, ".key-record-version"].concat(), i32::from_le_bytes(v4) == v.version);
            vsym::check(&[tag, ".key-record-value-address"].concat(), u64::from_le_bytes(a8) == v.value_disk_addr);
        }
        vf.seek(SeekFrom::Start(v.value_disk_addr)).unwrap();
        vf.read(&mut l8).unwrap();
        vsym::check(&[tag, ".value-offset-points-at-its-record"].concat(), u64::from_le_bytes(l8) == v.value.len() as u64);
    }
}

pub fn c06_history() {
    let n = mk_primary();
    mk_db(&n.dbs, "d", "none");
    let (mut c, mut rx) = admin_client(&n.dbs);
    process_request("use-db d tok", &n.dbs, &mut c);
    let steps = vsym::param("ops", 4);
    // reference: current (value, version) per key; None = absent / removed
    let names = ["k0", "key1", "n"];
    let mut cur: Vec<Option<(String, i32)>> = vec![None, None, None];
    let mut snap: Option<Vec<Option<(String, i32)>>> = None;
    if vsym::param("prefix", 0) == 1 {
        // fixed first phase: both keys and the counter exist and were persisted by an incremental snapshot
        let v0 = vsym::any_ascii("p0", 2); let v1 = vsym::any_ascii("p1", 3);
        vsym::assume(is_ok(&process_request(&["set k0 ", &v0].concat(), &n.dbs, &mut c)) && is_ok(&process_request(&["set key1 ", &v1].concat(), &n.dbs, &mut c)) && is_ok(&process_request("increment n 3", &n.dbs, &mut c)));
        cur[0] = Some((v0, peek(&n.dbs, "d", "k0").unwrap().version)); cur[1] = Some((v1, peek(&n.dbs, "d", "key1").unwrap().version));
        let p = peek(&n.dbs, "d", "n").unwrap(); cur[2] = Some((p.value.clone(), p.version));
        process_request("snapshot false", &n.dbs, &mut c); snapshot_all_pendding_dbs(&n.dbs);
        snap = Some(cur.clone());
    }
    let mut i = 0;
    while i < steps {
        // counter = 1: histories over the counter key only {increment n, remove n, snapshot false, snapshot true}
        let op = if vsym::param("counter", 0) == 1 { [4usize, 7, 5, 6][vsym::choice("op", 4)] } else { vsym::choice("op", 7) };
        vsym::tag(&["o", &i.to_string(), "=", &op.to_string()].concat());
        if op == 7 {
            process_request("remove n", &n.dbs, &mut c);
            cur[2] = None;
        } else if op == 0 || op == 1 {
            let v = vsym::any_ascii("val", 1 + (i % 3));
            vsym::assume(v != "<Empty>");
            let r = process_request(&["set ", names[op], " ", &v].concat(), &n.dbs, &mut c);
            vsym::assume(is_ok(&r));
            let ver = peek(&n.dbs, "d", names[op]).unwrap().version;
            cur[op] = Some((v, ver));
        } else if op == 2 || op == 3 {
            process_request(&["remove ", names[op - 2]].concat(), &n.dbs, &mut c);
            cur[op - 2] = None;
        } else if op == 4 {
            let r = process_request("increment n 3", &n.dbs, &mut c);
            vsym::assume(is_ok(&r));
            let p = peek(&n.dbs, "d", "n").unwrap();
            cur[2] = Some((p.value.clone(), p.version));
        } else {
            // the order in which a HashMap hands out its entries is unspecified: solver-chosen rotation per snapshot
            unsafe { vstd::vmap::ITER_ROT = vsym::choice("iteration-rotation", vsym::param("rot", 2)); }
            let r = process_request(if op == 5 { "snapshot false" } else { "snapshot true" }, &n.dbs, &mut c);
            vsym::assume(is_ok(&r));
            snapshot_all_pendding_dbs(&n.dbs);
            unsafe { vstd::vmap::ITER_ROT = 0; }
            offsets_consistent(&n, "after-snapshot");
            snap = Some(cur.clone());
            vsym::cover("snapshot.done", true);
        }
        i += 1;
    }
    if let Some(expected) = snap {
        let n2 = restart_node("n1");
        vsym::check("restart.database-present", n2.dbs.has_db("d"));
        offsets_consistent(&n2, "after-restart");
        if n2.dbs.has_db("d") {
            let mut k = 0;
            while k < 3 {
                let got = peek(&n2.dbs, "d", names[k]);
                match (&expected[k], got) {
                    (Some((v, ver)), Some(g)) => { vsym::check("restart.value-as-snapshotted", g.value == *v); vsym::check("restart.version-as-snapshotted", g.version == *ver); }
                    (Some(_), None) => vsym::check("restart.snapshotted-key-present", false),
                    (None, Some(g)) => vsym::check("restart.removed-key-not-resurrected", false),
                    (None, None) => {}
                }
                k += 1;
            }
            let m = n2.dbs.map.read().unwrap();
            let d = m.get(&String::from("d")).unwrap();
            vsym::check("restart.strategy-and-id", d.metadata.consensus_strategy == ConsensuStrategy::None && d.metadata.id == 1);
            vsym::check("restart.token-kept", match d.get_value(String::from("$$token")) { Some(t) => t.value == "tok", None => false });
        }
    }
}
