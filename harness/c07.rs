//! C07 — elections end with exactly one primary, the oldest node, and all agree.
//! Every connection handler runs as its own thread in cooperative mode (it runs until it finishes or sleeps in an election
//! wait loop); the harness is the network: it chooses which queued line is delivered next (solver choice) and lets a
//! sleeping handler take a timer tick only when no line can be delivered (messages are faster than the election timeout).
use crate::bo::*;
use crate::harness::cluster::*;
use crate::harness::common::*;
use crate::process_request::process_request;
use futures::channel::mpsc::{channel, Receiver, Sender};
use vstd::sync::Arc;
use vstd::sync::atomic::Ordering;

struct ELink {
    from: usize, to: usize, out_rx: Receiver<String>,
    server: Option<Client>, server_rx: Receiver<String>, server_job: Option<vsym::Handle<Client>>,
    conn: Option<Client>, conn_job: Option<vsym::Handle<Client>>,
}
fn econnect(nodes: &Vec<CNode>, from: usize, to: usize, to_role: ClusterRole, announce_primary: bool) -> ELink {
    let l = connect(nodes, from, to, to_role, announce_primary);
    ELink { from: l.from, to: l.to, out_rx: l.out_rx, server: Some(l.server), server_rx: l.server_rx, server_job: None, conn: Some(l.conn), conn_job: None }
}
pub fn c07_election() {
    // early > 0: a handler sleeping in a wait loop may also wake up (2 ms poll) while lines are still in flight, up to `early` times
    // (fewer than the ticks of the election timeout, so no timeout fires because of them)
    let early = vsym::param("early", 0);
    unsafe { vstd::vfs::ENV.push(("NUN_ELECTION_TIMEOUT", if early > 0 { "12" } else { "4" })); }
    let mut early_left = early;
    let secondaries = vsym::param("secondaries", 1);
    // prim: which node is the primary at the start (default: the oldest, n1). prim = 1: an OLDER node (n1) has joined a cluster led
    // by n2 and takes the role over in the election under test, the deposed primary stays in the cluster
    let prim = vsym::param("prim", 0);
    let mut nodes: Vec<CNode> = Vec::new();
    let mut i = 0;
    while i < secondaries + 1 { nodes.push(mk_cnode(&["n", &(i + 1).to_string()].concat(), (i + 1) as u128, if i == prim { ClusterRole::Primary } else { ClusterRole::Secoundary })); i += 1; }
    nodes[prim].dbs.add_cluster_member(ClusterMember { name: nodes[prim].name.clone(), role: ClusterRole::Primary, sender: None });
    let mut links: Vec<ELink> = Vec::new();
    let mut s = 0;
    while s < nodes.len() {
        if s != prim {
            links.push(econnect(&nodes, prim, s, ClusterRole::Secoundary, true));
            links.push(econnect(&nodes, s, prim, ClusterRole::Primary, false));
            let mut t = 0;
            while t < nodes.len() { if t != s && t != prim { links.push(econnect(&nodes, s, t, ClusterRole::Secoundary, false)); } t += 1; }
            // every node lists itself, as after its own join
            nodes[s].dbs.add_cluster_member(ClusterMember { name: nodes[s].name.clone(), role: ClusterRole::Secoundary, sender: None });
        }
        s += 1;
    }
    let mut k = 0; while k < nodes.len() { drain(&mut nodes[k].sup_rx); k += 1; }
    // from here on every node runs its REAL supervisor coroutine (start_replication_supervisor): arms election-win / primary / leave ...
    let mut sups: Vec<Loop> = Vec::new();
    let mut k = 0; while k < nodes.len() { let l = start_supervisor(&mut nodes[k]); sups.push(l); k += 1; }
    vsym::set_cooperative(true);
    // trigger: a forced election on a solver-chosen node (thorough: on two nodes at once)
    let mut client_jobs: Vec<vsym::Handle<Client>> = Vec::new();
    let triggers = vsym::param("triggers", 1);
    let mut t = 0;
    while t < triggers {
        // war = 1: a secondary claims the primary role while the primary is alive (what the timeout branches of start_election do:
        // election_win, reached through the `election win` command); the primary must win it back
        let war = vsym::param("war", 0) == 1;
        let at = if war { 1 + vsym::choice("rival", nodes.len() - 1) } else if prim != 0 { 0 } else { vsym::choice("trigger-at", nodes.len()) };
        vsym::tag_i("trigger-at", at as i64);
        let dbs = nodes[at].dbs.clone();
        client_jobs.push(vsym::spawn_suspended(move || { let (mut c, _rx) = admin_client(&dbs); process_request(if war { "election win" } else { "debug force-election" }, &dbs, &mut c); c }));
        t += 1;
    }
    let mut started = 0;
    let mut client_done: Vec<bool> = Vec::new(); { let mut j = 0; while j < client_jobs.len() { client_done.push(false); j += 1; } }
    let budget = vsym::param("budget", 150);
    let mut steps = 0;
    let mut quiet = false;
    let mut deviations_left = vsym::param("deviations", 1);
    while steps < budget {
        // enabled deliveries
        let mut ev: Vec<(usize, usize)> = Vec::new();
        // default order = the dedicated threads first (supervisor, replication loop), then connections in link order
        let mut n = 0;
        while n < nodes.len() { if nodes[n].dbs.replication_supervisor_sender.len() > 0 { ev.push((3, n)); } n += 1; }
        let mut n = 0;
        while n < nodes.len() { if nodes[n].dbs.replication_sender.len() > 0 { ev.push((2, n)); } n += 1; }
        if started < client_jobs.len() { ev.push((9, started)); }
        let mut l = 0;
        while l < links.len() {
            if links[l].out_rx.len() > 0 && links[l].server.is_some() { ev.push((0, l)); }
            if links[l].server_rx.len() > 0 && links[l].conn.is_some() { ev.push((1, l)); }
            l += 1;
        }
        let deliverable = ev.len();
        if deliverable > 0 && early_left > 0 && deviations_left > 0 {
            // early poll wake-ups: never the default choice
            let mut j = 0; while j < client_jobs.len() { if j < started && !client_done[j] { ev.push((5, j)); } j += 1; }
            let mut l = 0;
            while l < links.len() { if links[l].server_job.is_some() { ev.push((6, l)); } if links[l].conn_job.is_some() { ev.push((7, l)); } l += 1; }
        }
        if ev.len() == 0 {
            // nothing can be delivered: ONE sleeping handler takes a timer tick (the first by default, any other costs a deviation);
            // no sleeper left = quiescent
            let mut sleepers: Vec<(usize, usize)> = Vec::new();
            let mut j = 0; while j < client_jobs.len() { if j < started && !client_done[j] { sleepers.push((0, j)); } j += 1; }
            let mut l = 0;
            while l < links.len() { if links[l].server_job.is_some() { sleepers.push((1, l)); } if links[l].conn_job.is_some() { sleepers.push((2, l)); } l += 1; }
            let ticked = sleepers.len() > 0;
            if ticked {
                let which = if sleepers.len() > 1 && deviations_left > 0 { let d = vsym::choice("tick", sleepers.len()); if d > 0 { deviations_left -= 1; } d } else { 0 };
                let (k, idx) = sleepers[which];
                if k == 0 { if vsym::resume(&client_jobs[idx]) { client_done[idx] = true; } }
                else if k == 1 { if vsym::resume(links[idx].server_job.as_ref().unwrap()) { links[idx].server = Some(vsym::take(links[idx].server_job.take().unwrap())); } }
                else { if vsym::resume(links[idx].conn_job.as_ref().unwrap()) { links[idx].conn = Some(vsym::take(links[idx].conn_job.take().unwrap())); } }
            }
            if vsym::param("trace", 0) >= 1 { vsym::tag(if ticked { "tick" } else { "quiet" }); }
            if !ticked { quiet = true; break; }
            steps += 1; continue;
        }
        // delivery order: first-enabled by default; up to `deviations` times the solver picks any other enabled event instead
        // (delay-bounded exploration of the FIFO-respecting orders; deviations = 99 means every order)
        let pick = if ev.len() > 1 && deviations_left > 0 { let d = vsym::choice("deliver", ev.len()); if d > 0 { deviations_left -= 1; } d } else { 0 };
        let (kind, idx) = ev[pick];
        if vsym::param("trace", 0) == 1 { vsym::tag(&["ev", &kind.to_string(), ".", &idx.to_string()].concat()); }
        if kind >= 5 && kind <= 7 {
            early_left -= 1; vsym::cover("early-wake-up", true);
            if kind == 5 { if vsym::resume(&client_jobs[idx]) { client_done[idx] = true; } }
            else if kind == 6 { if vsym::resume(links[idx].server_job.as_ref().unwrap()) { links[idx].server = Some(vsym::take(links[idx].server_job.take().unwrap())); } }
            else { if vsym::resume(links[idx].conn_job.as_ref().unwrap()) { links[idx].conn = Some(vsym::take(links[idx].conn_job.take().unwrap())); } }
        }
        else if kind == 9 { if vsym::resume(&client_jobs[idx]) { client_done[idx] = true; } started += 1; }
        else if kind == 0 {
            let line = links[idx].out_rx.try_next().unwrap().unwrap();
            if vsym::param("trace", 0) == 2 { vsym::tag(&[&nodes[links[idx].from].name, ">", &nodes[links[idx].to].name, ": ", line.trim(), " [roles ", &(nodes[0].dbs.get_role() as usize).to_string(), &(nodes[1].dbs.get_role() as usize).to_string(), "]"].concat()); }
            let mut server = links[idx].server.take().unwrap();
            let dbs = nodes[links[idx].to].dbs.clone();
            let h = vsym::spawn_suspended(move || {
                match process_request(&line, &dbs, &mut server) { Response::Error { msg } => { let _ = server.sender.try_send(["error ", &msg, " \n"].concat()); } _ => { let _ = server.sender.try_send(String::from("ok \n")); } }
                server
            });
            if vsym::resume(&h) { links[idx].server = Some(vsym::take(h)); } else { links[idx].server_job = Some(h); }
        } else if kind == 1 {
            let line = links[idx].server_rx.try_next().unwrap().unwrap();
            let message = line.trim().to_string();
            if vsym::param("trace", 0) == 2 && message != "ok" { vsym::tag(&[&nodes[links[idx].to].name, " answers ", &nodes[links[idx].from].name, ": ", &message].concat()); }
            if message != "ok" {
                let mut conn = links[idx].conn.take().unwrap();
                let dbs = nodes[links[idx].from].dbs.clone();
                let h = vsym::spawn_suspended(move || { process_request(&message, &dbs, &mut conn); conn });
                if vsym::resume(&h) { links[idx].conn = Some(vsym::take(h)); } else { links[idx].conn_job = Some(h); }
            }
        } else if kind == 2 { poll_once(&mut nodes[idx].repl); }
        else {
            if vsym::param("trace", 0) == 2 { vsym::tag(&["supervisor ", &nodes[idx].name].concat()); }
            poll_once(&mut sups[idx]);
        }
        if vsym::param("trace", 0) == 2 { let mut rs = String::from("  roles"); let mut q = 0; while q < nodes.len() { rs.push_str(" "); rs.push_str(&(nodes[q].dbs.get_role() as usize).to_string()); q += 1; } vsym::tag(&rs); }
        steps += 1;
    }
    vsym::check("election.terminates", quiet);
    if quiet {
        let mut primaries = 0; let mut who = 0; let mut n = 0;
        while n < nodes.len() { if nodes[n].dbs.get_role() == ClusterRole::Primary { primaries += 1; who = n; } n += 1; }
        vsym::tag_i("primaries", primaries as i64); vsym::tag_i("steps", steps as i64);
        if vsym::param("trace", 0) == 1 { let mut n = 0; while n < nodes.len() { vsym::tag_i("supq", nodes[n].dbs.replication_supervisor_sender.len() as i64); vsym::tag_i("repq", nodes[n].dbs.replication_sender.len() as i64); n += 1; } }
        let mut n = 0; while n < nodes.len() { vsym::tag(&["role-", &nodes[n].name, "=", &(nodes[n].dbs.get_role() as usize).to_string()].concat()); n += 1; }
        vsym::check("election.exactly-one-primary", primaries == 1);
        if primaries == 1 {
            vsym::check("election.oldest-node-wins", who == 0);
            let mut n = 0;
            while n < nodes.len() {
                if n != who { vsym::check("election.others-are-secondary", nodes[n].dbs.get_role() == ClusterRole::Secoundary); }
                // every node's cluster-state names the same primary
                let cs = nodes[n].dbs.cluster_state.lock().unwrap(); let members = cs.members.lock().unwrap();
                let mut named = 0; let mut right = false;
                for (name, m) in members.iter() { if m.role == ClusterRole::Primary { named += 1; if *name == nodes[who].name { right = true; } } }
                if !(named == 1 && right) { vsym::tag(&["disagrees-", &nodes[n].name, "-named", &named.to_string()].concat()); for (name, m) in members.iter() { vsym::tag(&["  ", &nodes[n].name, " sees ", name, " as ", &(m.role as usize).to_string()].concat()); } }
                vsym::check("election.all-agree-on-the-primary", named == 1 && right);
                n += 1;
            }
        }
    }
}

/// local lemma behind "the oldest node wins": a candidate that was turned secondary by an older node's candidacy while it
/// pauses after collecting its acknowledgements must not claim the primary role when it wakes up. One node, one peer; the
/// harness plays the peer (acknowledges the candidacy) and the older candidate (demotes the node at a solver-chosen pause).
pub fn c07_pause_recheck() {
    unsafe { vstd::vfs::ENV.push(("NUN_ELECTION_TIMEOUT", "40")); }
    let mut node = mk_cnode("n2", 2, ClusterRole::Secoundary);
    let (tx, mut peer_rx): (Sender<String>, Receiver<String>) = channel(100);
    node.dbs.add_cluster_member(ClusterMember { name: String::from("n2"), role: ClusterRole::Secoundary, sender: None });
    node.dbs.add_cluster_member(ClusterMember { name: String::from("n1"), role: ClusterRole::Secoundary, sender: Some(tx) });
    vsym::set_cooperative(true);
    let dbs = node.dbs.clone();
    let job = vsym::spawn_suspended(move || { crate::election_ops::start_new_election(&dbs); true });
    let demote_at = vsym::choice("demote-at-pause", 8);
    vsym::tag_i("demote-at-pause", demote_at as i64);
    let mut pause = 0; let mut demoted = false; let mut acked = false; let mut won_before_demotion = false;
    while pause < 12 {
        let finished = vsym::resume(&job);
        if finished { break; }
        // the candidacy travels: replication loop registers the pending operation and sends it to the peer, the peer acknowledges
        poll_once(&mut node.repl);
        if let Ok(Some(line)) = peer_rx.try_next() {
            let mut it = line.splitn(3, " "); let _rp = it.next(); let id = it.next().unwrap_or("0").parse::<u64>().unwrap_or(0);
            if pause >= 1 && !acked { node.dbs.acknowledge_pending_opp(id, &String::from("n1")); acked = true; }
            else { peer_rx_requeue(&node, id); }
        } else if !acked {
            // the message was taken at an earlier pause: acknowledge now
            let ids: Vec<u64> = node.dbs.pending_opps.read().unwrap().keys().map(|k| *k).collect();
            if pause >= 1 && ids.len() > 0 { node.dbs.acknowledge_pending_opp(ids[0], &String::from("n1")); acked = true; }
        }
        if pause == demote_at && !demoted {
            if node.dbs.get_role() == ClusterRole::Primary { won_before_demotion = true; }
            // an older node's candidacy arrives: election_eval turns this node into a secondary
            node.dbs.node_state.swap(ClusterRole::Secoundary as usize, Ordering::Relaxed);
            demoted = true;
            vsym::tag(if acked { "demoted-after-acks" } else { "demoted-before-acks" });
        }
        pause += 1;
    }
    vsym::cover("pause.demoted-after-acks", demoted && acked);
    if demoted && acked && !won_before_demotion {
        vsym::check("election.no-claim-after-being-demoted-during-the-final-pause", node.dbs.get_role() != ClusterRole::Primary);
    }
}
fn peer_rx_requeue(_node: &CNode, _id: u64) {}
