//! C08 — secure ($$) keys are invisible and immutable to non-administrators: noninterference by self-composition
use crate::bo::*;
use crate::harness::common::*;
use crate::process_request::process_request;

fn secure_dump(n: &Node) -> Vec<String> {
    let mut out: Vec<String> = Vec::new();
    let m = n.dbs.map.read().unwrap();
    let db = m.get(&String::from("d")).unwrap();
    let dm = db.map.read().unwrap();
    let keys: Vec<String> = dm.keys().map(|k| k.clone()).collect();
    for k in keys.iter() { if k.starts_with("$$") { let v = dm.get(k).unwrap(); out.push([k.as_str(), "=", &v.value, "@", &v.version.to_string(), "s", &(v.state as usize).to_string()].concat()); } }
    out
}
fn mk_secret_node(secret: &String, other_token: &String, other_perms: &str, private_name: &str) -> Node {
    let n = mk_primary();
    mk_db(&n.dbs, "d", "none");
    let (mut admin, _arx) = admin_client(&n.dbs);
    process_request("use-db d tok", &n.dbs, &mut admin);
    process_request(&["set $$s ", secret].concat(), &n.dbs, &mut admin);
    process_request(&["create-user o ", other_token].concat(), &n.dbs, &mut admin);
    process_request(&["set-permissions o ", other_perms].concat(), &n.dbs, &mut admin);
    process_request("create-user me mt", &n.dbs, &mut admin);
    process_request("set-permissions me rwix *", &n.dbs, &mut admin);
    process_request("set pub 1", &n.dbs, &mut admin);
    // the NAMES of secure keys are secrets too (listing): one secure key whose name differs between the two servers
    process_request(&["set ", private_name, " 1"].concat(), &n.dbs, &mut admin);
    n
}

pub fn c08_noninterference() {
    // two servers that differ only in what administrators stored under $$ keys
    // (concrete pair of secrets of different shape: numeric vs text with a space; other user's token and permission list differ too)
    let sa = String::from("7"); let sb = String::from("x y");
    let oa = String::from("oa1"); let ob = String::from("ob2");
    let mut na = mk_secret_node(&sa, &oa, "r a*", "$$na");
    let mut nb = mk_secret_node(&sb, &ob, "rwix *", "$$nb");
    let sess = vsym::choice("session", 2);          // 0: database token; 1: user token with the customary full list
    vsym::tag_i("session", sess as i64);
    let login = if sess == 0 { "use-db d tok" } else { "use-db d me mt" };
    let (mut ca, mut rxa) = new_client(); let (mut cb, mut rxb) = new_client();
    vsym::assume(is_ok(&process_request(login, &na.dbs, &mut ca)) && is_ok(&process_request(login, &nb.dbs, &mut cb)));
    drain(&mut rxa); drain(&mut rxb); drain(&mut na.rep_rx); drain(&mut nb.rep_rx);
    // every word of the parser table except the login commands (presenting a guessed credential is not a read of a stored secret)
    let mut words: Vec<String> = Request::command_list().into_iter().filter(|w| w != "use" && w != "use-db" && w != "auth").collect(); words.sort();
    let w = vsym::choice("word", words.len());
    vsym::tag(&words[w]);
    let wrapped = vsym::param("rp", 0) == 1;
    let nargs = vsym::choice("nargs", 4);
    let inner = if vsym::param("keymode", 0) == 1 && nargs >= 1 {
        // quick tier: the first argument is one of the interesting key names or a short symbolic token, further arguments are short tokens
        let k = vsym::choice("first-arg", 7);
        vsym::tag_i("first-arg", k as i64);
        let first = match k { 0 => String::from("$$s"), 1 => String::from("$$token"), 2 => String::from("$$user_o"), 3 => String::from("$$permission_$o"), 4 => String::from("pub"), 5 => String::from("d"), _ => vsym::any_token("arg", vsym::param("arglen", 3)) };
        with_tokens(&[&words[w], " ", &first].concat(), nargs - 1, vsym::param("arglen", 3))
    } else { with_tokens(&words[w], nargs, vsym::param("arglen", 8)) };
    let line = if wrapped { ["rp 7 ", &inner].concat() } else { inner };
    let before_a = secure_dump(&na); let before_b = secure_dump(&nb);
    let ra = process_request(&line, &na.dbs, &mut ca);
    let rb = process_request(&line, &nb.dbs, &mut cb);
    vsym::check("secure.reply-independent-of-secrets", resp_text(&ra) == resp_text(&rb));
    let la = drain(&mut rxa); let lb = drain(&mut rxb);
    vsym::check("secure.lines-independent-of-secrets", same_lines(&la, &lb));
    vsym::check("secure.keys-unchanged", same_lines(&before_a, &secure_dump(&na)) && same_lines(&before_b, &secure_dump(&nb)));
    // later notifications (watch registered by this command) must not leak either: an administrator rewrites the secret
    let (mut ada, _x) = admin_client(&na.dbs); let (mut adb, _y) = admin_client(&nb.dbs);
    process_request("use-db d tok", &na.dbs, &mut ada); process_request("use-db d tok", &nb.dbs, &mut adb);
    process_request(&["set $$s ", &sb].concat(), &na.dbs, &mut ada); process_request(&["set $$s ", &sa].concat(), &nb.dbs, &mut adb);
    vsym::check("secure.no-notification-of-secret-writes", same_lines(&drain(&mut rxa), &drain(&mut rxb)));
}

/// $$token cannot be removed by anyone
pub fn c08_token_not_removable() {
    let n = mk_primary();
    mk_db(&n.dbs, "d", "none");
    let (mut admin, mut arx) = admin_client(&n.dbs);
    process_request("use-db d tok", &n.dbs, &mut admin);
    let how = vsym::choice("how", 3);
    let r = match how { 0 => process_request("remove $$token", &n.dbs, &mut admin), 1 => process_request("replicate-remove d $$token", &n.dbs, &mut admin), _ => process_request("rp 3 remove $$token", &n.dbs, &mut admin) };
    let t = peek(&n.dbs, "d", "$$token").unwrap();
    vsym::check("token.not-removable", t.value == "tok" && t.state != ValueStatus::Deleted);
}

fn secure_cluster_dump(cl: &crate::harness::cluster::Cluster) -> Vec<String> {
    let mut out: Vec<String> = Vec::new();
    let mut i = 0;
    while i < cl.nodes.len() {
        let m = cl.nodes[i].dbs.map.read().unwrap(); let db = m.get(&String::from("d")).unwrap(); let dm = db.map.read().unwrap();
        let mut ks: Vec<String> = dm.keys().map(|x| x.clone()).collect(); ks.sort();
        for x in ks.iter() { if x.starts_with("$$") || x.starts_with("$conflicts_$$") { let val = dm.get(x).unwrap(); out.push([&cl.nodes[i].name, "/", x.as_str(), "=", &val.value, "@", &val.version.to_string(), "s", &(val.state as usize).to_string()].concat()); } }
        i += 1;
    }
    out
}
/// the same guarantee through a secondary: a non-administrator session connected to a secondary sends mutating commands naming
/// $$ keys; whatever the secondary forwards travels over the (administrator-authenticated) cluster link, so the check has to be
/// made before forwarding. After quiescence the $$ keys of every node are unchanged and the command was refused.
pub fn c08_via_secondary() {
    use crate::harness::cluster::*;
    let mut cl = mk_cluster(1);
    let (mut admin, mut arx) = admin_client(&cl.nodes[0].dbs);
    process_request("create-db d tok", &cl.nodes[0].dbs, &mut admin);
    vsym::assume(cl.settle(80, false).is_some());
    process_request("use-db d tok", &cl.nodes[0].dbs, &mut admin);
    process_request("set $$s 7", &cl.nodes[0].dbs, &mut admin);
    process_request("create-user o ot", &cl.nodes[0].dbs, &mut admin);
    process_request("set-permissions o r a*", &cl.nodes[0].dbs, &mut admin);
    process_request("set pub 1", &cl.nodes[0].dbs, &mut admin);
    vsym::assume(cl.settle(200, false).is_some());
    let at = vsym::choice("node", 2); vsym::tag_i("node", at as i64);
    let sess = vsym::choice("session", 2); vsym::tag_i("session", sess as i64);
    let (mut c, mut rx) = new_client();
    if sess == 0 { vsym::assume(is_ok(&process_request("use-db d tok", &cl.nodes[at].dbs, &mut c))); }
    else {
        process_request("create-user me mt", &cl.nodes[0].dbs, &mut admin); process_request("set-permissions me rwix *", &cl.nodes[0].dbs, &mut admin);
        vsym::assume(cl.settle(200, false).is_some());
        vsym::assume(is_ok(&process_request("use-db d me mt", &cl.nodes[at].dbs, &mut c)));
    }
    vsym::assume(cl.settle(200, false).is_some());
    drain(&mut rx);
    let keys = ["$$s", "$$token", "$$user_o", "$$permission_$o"];
    let k = keys[vsym::choice("key", keys.len())]; vsym::tag(k);
    let v = vsym::any_token("value", 3); vsym::assume(v.len() >= 1);
    let ver = vsym::any_i32("version"); vsym::assume(ver >= -1 && ver <= 3);
    let op = vsym::choice("op", 5); vsym::tag_i("op", op as i64);
    let line = match op {
        0 => ["set ", k, " ", &v].concat(),
        1 => ["set-safe ", k, " ", &ver.to_string(), " ", &v].concat(),
        2 => ["remove ", k].concat(),
        3 => ["increment ", k, " 2"].concat(),
        _ => ["resolve 77 d ", k, " ", &ver.to_string(), " ", &v].concat(),
    };
    let before = secure_cluster_dump(&cl);
    let r = process_request(&line, &cl.nodes[at].dbs, &mut c);
    let settled = cl.settle(200, false);
    vsym::check("secure-cluster.quiesces", settled.is_some());
    vsym::check("secure-cluster.refused", is_error(&r));
    vsym::check("secure-cluster.keys-unchanged-on-every-node", same_lines(&before, &secure_cluster_dump(&cl)));
    vsym::cover("secure-cluster.on-secondary", at == 1);
}

/// keys decorated with control characters (the WebSocket / HTTP transports deliver them; the symbolic tokens elsewhere are printable
/// ASCII): a line break, carriage return or tab before or after a $$ name must not turn into an access to the $$ key itself
pub fn c08_control_characters() {
    let sa = String::from("7"); let oa = String::from("oa1");
    let mut n = mk_secret_node(&sa, &oa, "r a*", "$$na");
    let sess = vsym::choice("session", 2);
    vsym::tag_i("session", sess as i64);
    let login = if sess == 0 { "use-db d tok" } else { "use-db d me mt" };
    let (mut c, mut rx) = new_client();
    vsym::assume(is_ok(&process_request(login, &n.dbs, &mut c)));
    drain(&mut rx); drain(&mut n.rep_rx);
    let names = ["$$s", "$$token", "$$user_o", "$$permission_$o"];
    let name = names[vsym::choice("name", names.len())];
    let deco = vsym::choice("decoration", 6);
    vsym::tag_i("decoration", deco as i64);
    let key = match deco { 0 => ["\n", name].concat(), 1 => [name, "\n"].concat(), 2 => ["\r", name].concat(), 3 => ["\t", name].concat(), 4 => ["\r\n", name].concat(), _ => ["\n\n", name].concat() };
    let op = vsym::choice("op", 7);
    vsym::tag_i("op", op as i64);
    let v = vsym::any_token("value", 3); vsym::assume(v.len() >= 1);
    let line = match op {
        0 => ["set ", &key, " ", &v].concat(),
        1 => ["set-safe ", &key, " 0 ", &v].concat(),
        2 => ["remove ", &key].concat(),
        3 => ["increment ", &key, " 2"].concat(),
        4 => ["get ", &key].concat(),
        5 => ["get-safe ", &key].concat(),
        _ => ["watch ", &key].concat(),
    };
    let before = secure_dump(&n);
    let r = process_request(&line, &n.dbs, &mut c);
    vsym::check("control-chars.secure-keys-unchanged", same_lines(&before, &secure_dump(&n)));
    // nothing the session receives carries a stored secret (the secret value, the other user's token)
    let lines = drain(&mut rx);
    let mut leaked = false;
    for l in lines.iter() { if l.contains(" 7\n") || l.contains("oa1") || l.contains("r a*") { leaked = true; } }
    match &r { Response::Value { key: _, value, version: _ } => { if value == "7" || value == "oa1" || value == "r a*" { leaked = true; } }, _ => {} }
    vsym::check("control-chars.no-secret-in-replies", !leaked);
    // and later administrator writes to the secret are not notified to it
    let (mut ad, _x) = admin_client(&n.dbs);
    process_request("use-db d tok", &n.dbs, &mut ad);
    process_request("set $$s 99", &n.dbs, &mut ad);
    let later = drain(&mut rx);
    let mut notified = false; for l in later.iter() { if l.contains("99") { notified = true; } }
    vsym::check("control-chars.no-notification-of-secret-writes", !notified);
}
