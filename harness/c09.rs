//! C09 — every command acts only with the credential it requires
use crate::bo::*;
use crate::harness::common::*;
use crate::process_request::process_request;

fn is_refusal_or_protocol_line(l: &String) -> bool { l == "error no-db-selected\n" || l == "permission denied\n" || l.starts_with("ack ") || l == "invalid auth\n" }

/// administrative / cluster words from a session that never authenticated as administrator: nothing changes, no data returned
pub fn c09_admin_words() {
    let mut n = mk_primary();
    mk_db(&n.dbs, "d", "none");
    poke(&n.dbs, "d", "k", &String::from("v0"), 5, ValueStatus::Ok, 0, 0);
    let sess = vsym::choice("session", 2);      // 0 fresh, 1 database token selected
    vsym::tag_i("session", sess as i64);
    let (mut c, mut rx) = new_client();
    if sess == 1 { process_request("use-db d tok", &n.dbs, &mut c); }
    drain(&mut rx); drain(&mut n.rep_rx);
    let words = ["ack", "cluster-state", "create-db", "create-user", "debug", "election", "join", "leave", "metrics-state", "replicate", "replicate-increment",
                 "replicate-join", "replicate-leave", "replicate-remove", "replicate-since", "replicate-snapshot", "set-permissions", "set-primary", "set-secoundary", "snapshot", "list-commands"];
    let w = vsym::choice("word", words.len());
    vsym::tag(words[w]);
    let wrapped = vsym::any_bool("rp-wrapped");
    let nargs = vsym::choice("nargs", 4);
    let inner = with_tokens(words[w], nargs, vsym::param("arglen", 3));
    let line = if wrapped { ["rp 7 ", &inner].concat() } else { inner };
    let before = digest(&mut n);
    let sel_before = c.selected_db_name();
    let r = process_request(&line, &n.dbs, &mut c);
    let after = digest(&mut n);
    vsym::check("admin-word.changes-nothing", same_lines(&before, &after));
    vsym::check("admin-word.not-authenticated-by-it", !c.is_admin_auth());
    vsym::check("admin-word.selection-untouched", c.selected_db_name() == sel_before);
    let lines = drain(&mut rx);
    let mut i = 0;
    while i < lines.len() { vsym::check("admin-word.returns-no-data", is_refusal_or_protocol_line(&lines[i])); i += 1; }
    match r { Response::Value { .. } => vsym::check("admin-word.no-value-reply", false), _ => {} }
    vsym::cover("admin-word.refused", is_error(&r));
}

/// data words before any valid token was presented: refused, nothing changes; wrong password / wrong token give no access
pub fn c09_no_credentials() {
    let mut n = mk_primary();
    mk_db(&n.dbs, "d", "none");
    poke(&n.dbs, "d", "k", &String::from("v0"), 5, ValueStatus::Ok, 0, 0);
    let (mut c, mut rx) = new_client();
    let pre = vsym::choice("attempt", 4);   // 0 nothing, 1 wrong password, 2 wrong token, 3 token of a database that does not exist
    vsym::tag_i("attempt", pre as i64);
    if pre == 1 { let pw = vsym::any_token("pw", 4); vsym::assume(pw != "pwd"); process_request(&["auth user ", &pw].concat(), &n.dbs, &mut c); }
    if pre == 2 { let tk = vsym::any_token("tk", 4); vsym::assume(tk != "tok"); let r = process_request(&["use-db d ", &tk].concat(), &n.dbs, &mut c); vsym::check("wrong-token.refused", is_error(&r)); }
    if pre == 3 { let r = process_request("use-db nodb tok", &n.dbs, &mut c); vsym::check("unknown-db.refused", is_error(&r)); }
    vsym::check("no-credentials.not-admin", !c.is_admin_auth());
    vsym::check("no-credentials.no-selection", c.selected_db_name().is_none());
    drain(&mut rx); drain(&mut n.rep_rx);
    let words = ["get", "get-safe", "set", "set-safe", "remove", "increment", "keys", "ls", "watch", "unwatch", "unwatch-all", "arbiter", "resolve"];
    let w = vsym::choice("word", words.len());
    vsym::tag(words[w]);
    let nargs = vsym::choice("nargs", 4);
    let line = with_tokens(words[w], nargs, vsym::param("arglen", 3));
    let before = digest(&mut n);
    let r = process_request(&line, &n.dbs, &mut c);
    let after = digest(&mut n);
    vsym::check("data-word.needs-selection.changes-nothing", same_lines(&before, &after));
    let lines = drain(&mut rx);
    let mut i = 0;
    while i < lines.len() { vsym::check("data-word.needs-selection.returns-no-data", is_refusal_or_protocol_line(&lines[i])); i += 1; }
    match r { Response::Value { .. } => vsym::check("data-word.needs-selection.no-value-reply", false), _ => {} }
}

/// reference for permission patterns: "p*" prefix, "*s" suffix, otherwise contains
fn spec_matches(pat: &String, key: &String) -> bool {
    if pat.ends_with("*") { key.starts_with(&pat[..pat.len() - 1]) } else if pat.starts_with("*") { key.ends_with(&pat[1..]) } else { key.contains(pat.as_str()) }
}

/// user-token session: an effect of kind read / write / increment / remove on key k needs a permission entry of that kind
/// whose pattern matches k; a failed use-db keeps the previous binding; a user without list reaches no value
pub fn c09_user_permissions() {
    let mut n = mk_primary();
    mk_db(&n.dbs, "d", "none");
    let (mut admin, mut arx) = admin_client(&n.dbs);
    process_request("use-db d tok", &n.dbs, &mut admin);
    process_request("create-user u1 t1", &n.dbs, &mut admin);
    process_request("create-user u2 t2", &n.dbs, &mut admin);
    process_request("set-permissions u2 rwix *", &n.dbs, &mut admin);
    // u1's list: solver-chosen kinds subset x one of three patterns, or no list at all
    let ks = vsym::choice("kinds", 6);     // 0 = no list at all; single kinds; all kinds
    vsym::tag_i("kinds", ks as i64);
    let has_list = ks != 0;
    let kinds = match ks { 1 => "r", 2 => "w", 3 => "i", 4 => "x", _ => "rwix" };
    let (pr, pw, pi, px) = (ks == 1 || ks == 5, ks == 2 || ks == 5, ks == 3 || ks == 5, ks == 4 || ks == 5);
    let pk = vsym::choice("pattern", 3);
    let pat = String::from(match pk { 0 => "a*", 1 => "*z", _ => "m" });
    if has_list {
        let r = process_request(&["set-permissions u1 ", kinds, " ", &pat].concat(), &n.dbs, &mut admin);
        vsym::assume(is_ok(&r));
    }
    let key = vsym::any_token("key", 3);
    vsym::assume(key.len() >= 1 && !key.starts_with("$"));
    poke(&n.dbs, "d", "zzq", &String::from("7"), 5, ValueStatus::Ok, 0, 0);
    // the key exists beforehand (so that reads would return data and increments / removes would have an effect)
    { let m = n.dbs.map.read().unwrap(); m.get(&String::from("d")).unwrap().set_value_version(&key, &String::from("7"), 5, ValueStatus::Ok, 0, 0, 7); }
    let (mut c, mut rx) = new_client();
    let r = process_request("use-db d u1 t1", &n.dbs, &mut c);
    vsym::assume(is_ok(&r));
    // optionally: a failed attempt to re-bind the session to the powerful user
    if vsym::param("rebind", 0) == 1 {
        let r = process_request("use-db d u2 wrong", &n.dbs, &mut c);
        vsym::check("failed-use-db.refused", is_error(&r));
        vsym::check("failed-use-db.keeps-user", c.selected_db_user_name() == Some(String::from("u1")));
        vsym::check("failed-use-db.keeps-db", c.selected_db_name() == Some(String::from("d")));
    }
    drain(&mut rx); drain(&mut n.rep_rx);
    let op = vsym::choice("op", 8);
    vsym::tag_i("op", op as i64);
    let (line, need) = match op {
        0 => (["get ", &key].concat(), 0), 1 => (["get-safe ", &key].concat(), 0), 2 => (["watch ", &key].concat(), 0),
        3 => (["set ", &key, " 9"].concat(), 1), 4 => (["set-safe ", &key, " 9 9"].concat(), 1),
        5 => (["increment ", &key].concat(), 2), 6 => (["remove ", &key].concat(), 3),
        _ => (["resolve 1 d ", &key, " 5 9"].concat(), 1),
    };
    let granted = has_list && (match need { 0 => pr, 1 => pw, 2 => pi, _ => px }) && spec_matches(&pat, &key);
    let before = digest(&mut n);
    let r = process_request(&line, &n.dbs, &mut c);
    let after = digest(&mut n);
    let lines = drain(&mut rx);
    if !granted {
        vsym::check("permission.effect-needs-grant", same_lines(&before, &after));
        vsym::check("permission.refused", is_error(&r));
        let mut i = 0;
        while i < lines.len() { vsym::check("permission.no-data-without-grant", is_refusal_or_protocol_line(&lines[i])); i += 1; }
        vsym::cover("permission.denied-case", true);
    } else {
        vsym::check("permission.granted-is-served", !is_error(&r) || op == 4 || op == 5);   // (a stale set-safe / non-numeric increment may still be refused for their own reasons)
        vsym::cover("permission.granted-case", true);
    }
}

/// a failed use-db (wrong token for another user / another database) leaves the previous binding untouched
pub fn c09_failed_rebind() {
    let mut n = mk_primary();
    mk_db(&n.dbs, "d", "none"); mk_db(&n.dbs, "e", "none");
    let (mut admin, mut arx) = admin_client(&n.dbs);
    process_request("use-db d tok", &n.dbs, &mut admin);
    process_request("create-user u1 t1", &n.dbs, &mut admin);
    process_request("create-user u2 t2", &n.dbs, &mut admin);
    process_request("set-permissions u1 r a*", &n.dbs, &mut admin);
    process_request("set-permissions u2 rwix *", &n.dbs, &mut admin);
    poke(&n.dbs, "d", "zzq", &String::from("7"), 5, ValueStatus::Ok, 0, 0);
    poke(&n.dbs, "d", "ab", &String::from("8"), 5, ValueStatus::Ok, 0, 0);
    let (mut c, mut rx) = new_client();
    vsym::assume(is_ok(&process_request("use-db d u1 t1", &n.dbs, &mut c)));
    let how = vsym::choice("failed-attempt", 3);
    vsym::tag_i("failed-attempt", how as i64);
    let wrong = vsym::any_token("wrong", 3);
    let r = match how {
        0 => { vsym::assume(wrong != "t2"); process_request(&["use-db d u2 ", &wrong].concat(), &n.dbs, &mut c) }
        1 => { vsym::assume(wrong != "tok"); process_request(&["use-db e ", &wrong].concat(), &n.dbs, &mut c) }
        _ => process_request(&["use-db nodb ", &wrong].concat(), &n.dbs, &mut c),
    };
    vsym::check("failed-use-db.refused", is_error(&r));
    vsym::check("failed-use-db.keeps-user", c.selected_db_user_name() == Some(String::from("u1")));
    vsym::check("failed-use-db.keeps-db", c.selected_db_name() == Some(String::from("d")));
    drain(&mut rx);
    let before = digest(&mut n);
    let r1 = process_request("get zzq", &n.dbs, &mut c);
    let r2 = process_request("set zzq 1", &n.dbs, &mut c);
    let r3 = process_request("remove ab", &n.dbs, &mut c);
    vsym::check("failed-use-db.no-new-rights", is_error(&r1) && is_error(&r2) && is_error(&r3));
    let lines = drain(&mut rx);
    let mut i = 0;
    while i < lines.len() { vsym::check("failed-use-db.no-data", lines[i] == "permission denied\n"); i += 1; }
    let after = digest(&mut n);
    vsym::check("failed-use-db.no-effect", same_lines(&before, &after));
    match process_request("get ab", &n.dbs, &mut c) { Response::Value { key: _, value, version: _ } => vsym::check("failed-use-db.old-rights-kept", value == "8"), _ => vsym::check("failed-use-db.old-rights-kept", false) }
}

/// a session reaches only the database it selected: `resolve` is the data command that carries a database name of its own;
/// naming a database the session holds no credential for (never selected / failed use-db / another database's token) must be
/// refused and must leave that database untouched
pub fn c09_foreign_database() {
    let mut n = mk_primary();
    mk_db(&n.dbs, "d", "none");
    { let (mut a, _rx) = admin_client(&n.dbs); vsym::assume(is_ok(&process_request("create-db e tk2 none", &n.dbs, &mut a))); }
    poke(&n.dbs, "d", "k", &String::from("v0"), 5, ValueStatus::Ok, 0, 0);
    poke(&n.dbs, "e", "k", &String::from("100"), 5, ValueStatus::Ok, 0, 0);
    let sess = vsym::choice("session", 3);      // 0 fresh, 1 failed use-db e (wrong token), 2 database d selected with its own token
    vsym::tag_i("session", sess as i64);
    let (mut c, mut rx) = new_client();
    if sess == 1 { let r = process_request("use-db e tok", &n.dbs, &mut c); vsym::assume(is_error(&r)); }
    if sess == 2 { let r = process_request("use-db d tok", &n.dbs, &mut c); vsym::assume(is_ok(&r)); }
    drain(&mut rx); drain(&mut n.rep_rx);
    let ver = vsym::any_i32("version"); vsym::assume(ver >= -1 && ver <= 9);
    let val = vsym::any_token("value", 3); vsym::assume(val.len() >= 1);
    let line = ["resolve 77 e k ", &ver.to_string(), " ", &val].concat();
    let e_before: Vec<String> = digest(&mut n).into_iter().filter(|l| l.starts_with("db e ") || l.starts_with("  ")).collect();
    let all_before = digest(&mut n);
    let r = process_request(&line, &n.dbs, &mut c);
    let all_after = digest(&mut n);
    let ek = peek(&n.dbs, "e", "k").unwrap();
    vsym::check("foreign-db.key-untouched", ek.value == "100" && ek.version == 5);
    vsym::check("foreign-db.no-conflict-record", peek(&n.dbs, "e", "$conflicts_k_77").is_none());
    if sess != 2 {
        vsym::check("foreign-db.refused", is_error(&r));
        vsym::check("foreign-db.changes-nothing", same_lines(&all_before, &all_after));
    }
    vsym::cover("foreign-db.refused-seen", is_error(&r));
}
