//! C10 — no client input can crash a handler or wedge the node
use crate::bo::*;
use crate::harness::common::*;
use crate::process_request::process_request;

/// layer 1: the parser on a fully symbolic line
pub fn c10_parse() {
    let s = vsym::any_str("line", vsym::param("len", 24));
    let r = Request::parse(&s);
    vsym::cover("parse.ok", r.is_ok());
    vsym::cover("parse.err", r.is_err());
}

/// layer 2: every command word of the parser table x symbolic argument string x session kind, through process_request;
/// no panic, and a second client is served normally afterwards
pub fn c10_handlers() {
    let n = mk_primary();
    mk_db(&n.dbs, "d", "none");
    let (mut probe, mut prx) = db_client(&n.dbs, "d");
    let sess = vsym::choice("session", 3);
    vsym::tag_i("session", sess as i64);
    let (mut c, mut rx) = new_client();
    if sess == 1 { process_request("auth user pwd", &n.dbs, &mut c); }
    if sess >= 1 { process_request("use-db d tok", &n.dbs, &mut c); }
    let mut words = Request::command_list();
    words.sort();
    let w = vsym::choice("word", words.len());
    vsym::tag(&words[w]);
    let args = vsym::any_str("args", vsym::param("arglen", 10));
    let line = [&words[w], " ", &args].concat();
    let r = process_request(&line, &n.dbs, &mut c);
    vsym::cover("handler.error-reply", is_error(&r));
    vsym::cover("handler.ok-reply", is_ok(&r));
    // the node keeps serving other clients
    let r1 = process_request("set probe p1", &n.dbs, &mut probe);
    let r2 = process_request("get probe", &n.dbs, &mut probe);
    // (an administrator may legitimately change what other clients can do; for the other sessions the probe must succeed)
    if sess != 1 {
        vsym::check("probe.set-answered", is_ok(&r1));
        match r2 { Response::Value { key: _, value, version: _ } => vsym::check("probe.get-value", value == "p1"), _ => vsym::check("probe.get-answered", false) }
    }
}
