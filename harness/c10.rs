//! C10 — no client input can crash a handler or wedge the node
use crate::bo::*;
use crate::harness::common::*;
use crate::process_request::process_request;

/// layer 1: the parser on a fully symbolic line
pub fn c10_parse() {
    let s = vsym::any_str("line", vsym::param("len", 24));
    // the permission-list grammar multiplies paths per '|' piece: it has its own harness (c10_parse_permissions)
    vsym::assume(!s.starts_with("set-permissions "));
    let r = Request::parse(&s);
    vsym::cover("parse.ok", r.is_ok());
    vsym::cover("parse.err", r.is_err());
}

/// layer 1b: the permission-list grammar of set-permissions on a symbolic list of bounded shape
pub fn c10_parse_permissions() {
    let user = vsym::any_token("user", 3);
    let list = vsym::any_str("list", vsym::param("listlen", 6));
    let r = Request::parse(&["set-permissions ", &user, " ", &list].concat());
    vsym::cover("perm.ok", r.is_ok());
}

/// layer 2: every command word of the parser table x symbolic argument string x session kind, through process_request;
/// no panic, and a second client is served normally afterwards
pub fn c10_handlers() {
    // a node with its real replication loop (service thread): whatever the command queues for it is processed afterwards
    let mut n = crate::harness::cluster::mk_cnode("n1", 1u128, ClusterRole::Primary);
    mk_db(&n.dbs, "d", "none");
    { let mut q = 0; while q < 8 && n.dbs.replication_sender.len() > 0 { crate::harness::cluster::poll_once(&mut n.repl); q += 1; } }
    // pre-state: a resolved and an unresolved conflict record are present (state that arbiter / keys / resolve walk over)
    poke(&n.dbs, "d", "$conflicts_x_1", &String::from("resolved y"), 1, ValueStatus::Ok, 0, 0);
    poke(&n.dbs, "d", "$conflicts_x_2", &String::from("resolve 2 d 1 x a b"), 1, ValueStatus::Ok, 0, 0);
    let (mut probe, mut prx) = db_client(&n.dbs, "d");
    let sess = vsym::choice("session", 4);     // 0 nothing, 1 admin + database, 2 database token, 3 admin without a selected database
    vsym::tag_i("session", sess as i64);
    let (mut c, mut rx) = new_client();
    if sess == 1 || sess == 3 { process_request("auth user pwd", &n.dbs, &mut c); }
    if sess == 1 || sess == 2 { process_request("use-db d tok", &n.dbs, &mut c); }
    let mut words = Request::command_list();
    words.sort();
    let w = vsym::choice("word", words.len());
    vsym::tag(&words[w]);
    // argument list: 0..3 symbolic tokens (no spaces inside a token) joined by single spaces; the last one may be any string
    let nargs = vsym::choice("nargs", 4);
    let mut line = words[w].clone();
    let mut a = 0;
    while a < nargs {
        let t = if a + 1 == nargs && vsym::param("free_tail", 1) == 1 { vsym::any_str("tail", vsym::param("arglen", 6)) } else { vsym::any_token("arg", vsym::param("arglen", 6)) };
        line = [&line, " ", &t].concat();
        a += 1;
    }
    let r = process_request(&line, &n.dbs, &mut c);
    vsym::cover("handler.error-reply", is_error(&r));
    vsym::cover("handler.ok-reply", is_ok(&r));
    // no service thread dies: the replication loop takes what the command queued (a panic in there is reported like any other)
    // and is still waiting for more afterwards
    {
        let mut q = 0; let mut finished = false;
        while q < 8 && n.dbs.replication_sender.len() > 0 && !finished { finished = crate::harness::cluster::poll_once(&mut n.repl); q += 1; }
        vsym::check("service.replication-loop-still-running", !finished);
        vsym::cover("service.replication-loop-had-work", q > 0);
    }
    // the node keeps serving other clients
    let r1 = process_request("set p p1", &n.dbs, &mut probe);
    let r2 = process_request("get p", &n.dbs, &mut probe);
    // (an administrator may legitimately change what other clients can do; for the other sessions the probe must succeed)
    if sess != 1 && sess != 3 {
        vsym::check("probe.set-answered", is_ok(&r1));
        match r2 { Response::Value { key: _, value, version: _ } => vsym::check("probe.get-value", value == "p1"), _ => vsym::check("probe.get-answered", false) }
    }
}

/// layer 3: concrete hostile samples that the symbolic layers cannot spell (very long tokens, multi-byte UTF-8 around buffer-size
/// boundaries, control characters); each through process_request from a fresh and from a database-token session, followed by the probe
pub fn c10_samples() {
    let n = mk_primary();
    mk_db(&n.dbs, "d", "none");
    let (mut probe, mut prx) = db_client(&n.dbs, "d");
    let sess = vsym::choice("session", 2);
    let (mut c, mut rx) = new_client();
    if sess == 1 { process_request("use-db d tok", &n.dbs, &mut c); }
    let k = vsym::choice("sample", 16);
    vsym::tag_i("sample", k as i64);
    let line: String = match k {
        0 => ["set doc ", &"a".repeat(5000)].concat(),
        1 => ["set doc ", &"\u{65e5}".repeat(600)].concat(),                 // 3-byte characters across the 1024 / 250 / 4096 byte marks
        2 => ["set d", &"\u{e9}".repeat(511), " v"].concat(),                // 2-byte characters, odd offset
        3 => ["get ", &"k".repeat(1021), "\u{1f600}"].concat(),              // 4-byte character straddling byte 1024
        4 => "set\tk\tv".to_string(),
        5 => "set k v\r\n".to_string(),
        6 => "set k \u{0}\u{1}".to_string(),
        7 => ";".repeat(300),
        8 => " ".repeat(300),
        9 => ["keys ", &"*".repeat(2000)].concat(),
        10 => ["increment k ", &"9".repeat(400)].concat(),
        11 => ["set-safe k ", &"9".repeat(400), " v"].concat(),
        12 => ["use-db ", &"\u{65e5}".repeat(400), " tok"].concat(),
        14 => [&"rp 1 ".repeat(3000), "get k"].concat(),                       // a 15 KB line of nested replication wrappers
        15 => [&"rp 1 ".repeat(40), "get k"].concat(),                         // nesting is refused outright (no node produces it)
        _ => ["auth ", &"u".repeat(1023), "\u{e9} pwd"].concat(),
    };
    let r = process_request(&line, &n.dbs, &mut c);
    vsym::cover("sample.answered", true);
    let r1 = process_request("set p p1", &n.dbs, &mut probe);
    vsym::check("sample.probe-set-answered", is_ok(&r1));
    match process_request("get p", &n.dbs, &mut probe) { Response::Value { key: _, value, version: _ } => vsym::check("sample.probe-get-value", value == "p1"), _ => vsym::check("sample.probe-get-answered", false) }
}
