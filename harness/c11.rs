//! C11 — a crash during a snapshot never damages previously persisted data
use crate::bo::*;
use crate::disk_ops::*;
use crate::harness::common::*;
use crate::process_request::process_request;

pub fn c11_crash() {
    let n = mk_primary();
    mk_db(&n.dbs, "d", "none");
    let (mut c, mut rx) = admin_client(&n.dbs);
    process_request("use-db d tok", &n.dbs, &mut c);
    // snapshot 1 (completes): two keys with symbolic content
    let a0 = vsym::any_ascii("a0", 2); let b0 = vsym::any_ascii("b0", 3);
    vsym::assume(is_ok(&process_request(&["set k0 ", &a0].concat(), &n.dbs, &mut c)) && is_ok(&process_request(&["set key1 ", &b0].concat(), &n.dbs, &mut c)));
    process_request("snapshot false", &n.dbs, &mut c); snapshot_all_pendding_dbs(&n.dbs);
    let old0 = peek(&n.dbs, "d", "k0").unwrap(); let old1 = peek(&n.dbs, "d", "key1").unwrap();
    // the memory state changes
    let kind = vsym::choice("change", 6);
    vsym::tag_i("change", kind as i64);
    let a1 = vsym::any_ascii("a1", 3);
    let long = "x".repeat(300);             // longer than the 250-byte writer buffers
    if kind == 0 || kind == 3 { process_request(&["set k0 ", &a1].concat(), &n.dbs, &mut c); }
    if kind == 1 || kind == 3 || kind == 5 { process_request("set k2 nw", &n.dbs, &mut c); }
    if kind == 2 || kind == 5 { process_request("remove key1", &n.dbs, &mut c); }
    if kind == 4 { process_request(&["set k0 ", &long].concat(), &n.dbs, &mut c); }
    let new0 = peek(&n.dbs, "d", "k0").unwrap(); let new1 = peek(&n.dbs, "d", "key1");
    // snapshot 2 is interrupted: every mutating file-system operation with index >= CRASH_AT is lost
    let reclaim = vsym::param("reclaim", 0) == 1;
    process_request(if reclaim { "snapshot true" } else { "snapshot false" }, &n.dbs, &mut c);
    let k = vsym::any_u64("crash-after-ops"); vsym::assume(k < 10_000);
    unsafe { vstd::vfs::CRASH_AT = vstd::vfs::OPS + k; }
    // the order in which the snapshot visits the keys is unspecified (HashMap): solver-chosen rotation
    unsafe { vstd::vmap::ITER_ROT = vsym::choice("iteration-rotation", vsym::param("rot", 6)); }
    snapshot_all_pendding_dbs(&n.dbs);
    unsafe { vstd::vmap::ITER_ROT = 0; }
    let completed = unsafe { vstd::vfs::OPS <= vstd::vfs::CRASH_AT };
    vsym::cover("crash.before-end", !completed); vsym::cover("crash.none", completed);
    unsafe { vstd::vfs::CRASH_AT = u64::MAX; }
    // next start
    let n2 = restart_node("n1");
    vsym::check("crash.database-still-there", n2.dbs.has_db("d"));
    if n2.dbs.has_db("d") {
        match peek(&n2.dbs, "d", "k0") {
            Some(g) => {
                vsym::check("crash.k0-value-was-stored", g.value == old0.value || g.value == new0.value);      // never a value that was never stored
                vsym::check("crash.k0-old-or-new", (g.value == old0.value && g.version == old0.version) || (g.value == new0.value && g.version == new0.version));
            }
            None => vsym::check("crash.persisted-key-present", false),
        }
        match peek(&n2.dbs, "d", "key1") {
            Some(g) => {
                vsym::check("crash.key1-value-was-stored", g.value == old1.value || (match &new1 { Some(nv) => g.value == nv.value, None => false }));
                vsym::check("crash.key1-old-or-new", (g.value == old1.value && g.version == old1.version) || (match &new1 { Some(nv) => g.value == nv.value && g.version == nv.version, None => false }));
            }
            None => vsym::check("crash.persisted-key-present", kind == 2 || kind == 5),     // gone only if it was being removed
        }
        // a key the interrupted snapshot was adding: absent (before) or complete (after), never a value that was never stored
        if kind == 1 || kind == 3 || kind == 5 {
            match peek(&n2.dbs, "d", "k2") { Some(g) => vsym::check("crash.new-key-absent-or-as-written", g.value == "nw"), None => {} }
        }
        match peek(&n2.dbs, "d", "$$token") { Some(t) => vsym::check("crash.neighbour-token-intact", t.value == "tok"), None => vsym::check("crash.neighbour-token-intact", false) }
        if completed {
            match peek(&n2.dbs, "d", "k0") { Some(g) => vsym::check("nocrash.k0-new", g.value == new0.value && g.version == new0.version), None => {} }
        }
    }
}
