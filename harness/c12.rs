//! C12 — the operation-log query never misses an operation
use crate::bo::*;
use crate::disk_ops::*;
use crate::harness::common::*;

fn kind_of(i: usize) -> ReplicateOpp { match i % 4 { 0 => ReplicateOpp::Update, 1 => ReplicateOpp::Remove, 2 => ReplicateOpp::CreateDb, _ => ReplicateOpp::Snapshot } }

/// search completeness: n records with distinct (db, key), symbolic non-decreasing timestamps, symbolic `since`
pub fn c12_search() {
    let n = vsym::param("n", 5);
    let strict = vsym::param("strict", 0) == 1;
    let mut w = Oplog::get_log_file_append_mode();
    let mut times: Vec<u64> = Vec::new();
    let mut i = 0;
    let mut prev = 0u64;
    while i < n {
        let t = vsym::any_u64("t");
        vsym::assume(t >= 1 && t < u64::MAX && (if strict { t > prev } else { t >= prev }));
        let r = Oplog::write_op_log(&mut w, 1 + (i as u64 % 2), 10 + i as u64, &kind_of(i), t);
        vsym::check("write.ok", r.is_ok());
        times.push(t); prev = t; i += 1;
    }
    let last = Oplog::last_op_time();
    if n == 0 { vsym::check("last-op-time.empty-is-0", last == 0); } else { vsym::check("last-op-time.is-newest", last == times[n - 1]); }
    let since = vsym::any_u64("since");
    let ops = read_operations_since(since);
    let mut i = 0;
    while i < n {
        let key = [&(1 + (i as u64 % 2)).to_string(), "_", &(10 + i as u64).to_string()].concat();
        if times[i] >= since {
            vsym::cover("search.some-record-at-or-after", true);
            match ops.get(&key) {
                Some(rec) => {
                    vsym::check("search.timestamp", rec.timestamp == times[i]);
                    vsym::check("search.kind", rec.opp.to_u8() == kind_of(i).to_u8());
                }
                None => vsym::check("search.complete", false),
            }
        } else { vsym::cover("search.some-record-before", true); }
        i += 1;
    }
}

/// labelling: few records over a small symbolic (db, key) alphabet with solver-chosen kinds; the returned label of a
/// (db, key) is the kind of its most recent record
pub fn c12_label() {
    let n = vsym::param("n", 3);
    let mut w = Oplog::get_log_file_append_mode();
    let mut recs: Vec<(u64, u64, u64, u8)> = Vec::new();
    let mut i = 0; let mut prev = 0u64;
    while i < n {
        let t = vsym::any_u64("t"); vsym::assume(t > prev && t < 1_000_000);
        let db = 1 + (i as u64 % 2) * (vsym::param("dbs", 1) as u64 - 1);
        let key = 10 + vsym::choice("key", 2) as u64;
        let k = vsym::choice("kind", 4);
        let opp = kind_of(k);
        Oplog::write_op_log(&mut w, db, key, &opp, t).unwrap();
        recs.push((db, key, t, opp.to_u8())); prev = t; i += 1;
    }
    let since = vsym::any_u64("since");
    let ops = read_operations_since(since);
    // for every (db, key) of the alphabet: newest record decides
    let mut db = 1u64;
    while db <= 2 {
        let mut key = 10u64;
        while key <= 11 {
            let mut newest: Option<usize> = None; let mut j = 0;
            while j < n { if recs[j].0 == db && recs[j].1 == key { newest = Some(j); } j += 1; }
            let name = [&db.to_string(), "_", &key.to_string()].concat();
            if let Some(j) = newest {
                if recs[j].2 >= since {
                    match ops.get(&name) {
                        Some(r) => { vsym::check("label.kind-of-most-recent", r.opp.to_u8() == recs[j].3); vsym::check("label.time-of-most-recent", r.timestamp == recs[j].2); }
                        None => vsym::check("label.complete", false),
                    }
                }
            } else { vsym::check("label.no-phantom", ops.get(&name).is_none()); }
            key += 1;
        }
        db += 1;
    }
}

/// rotation: NUN_MAX_OP_LOG_SIZE = 10 files of 3 records; records written through try_write_op_log (the path the
/// replication loop uses) with solver-chosen keys from a 2-key alphabet (so that whole files can repeat keys already seen
/// in newer files); every (db,key) with a record at or after `since` is still found, nothing is dropped by rotation
pub fn c12_rotate() {
    unsafe { vstd::vfs::ENV.push(("NUN_MAX_OP_LOG_SIZE", "750")); }
    let n = vsym::param("n", 7);
    let mut w = Oplog::get_log_file_append_mode();
    let mut times: Vec<u64> = Vec::new(); let mut keys: Vec<u64> = Vec::new(); let mut kinds: Vec<u8> = Vec::new();
    let mut i = 0; let mut prev = 0u64;
    while i < n {
        let t = vsym::any_u64("t"); vsym::assume(t > prev && t < 1_000_000);
        let k = 10 + vsym::choice("key", 2) as u64;
        let kind = if vsym::param("kinds", 0) == 1 { vsym::choice("kind", 2) } else { 0 };      // update / remove
        let r = Oplog::try_write_op_log(&mut w, Some(1), k, &kind_of(kind), t);
        vsym::check("rotate.write-ok", r.is_ok());
        // what a node reports to its primary when it re-syncs at this instant (also right after a rotation)
        vsym::check("rotate.last-op-time-is-newest", Oplog::last_op_time() == t);
        times.push(t); keys.push(k); kinds.push(kind_of(kind).to_u8()); prev = t; i += 1;
    }
    let since = vsym::any_u64("since");
    let ops = read_operations_since(since);
    let mut k = 10u64;
    while k <= 11 {
        let mut newest: Option<usize> = None; let mut j = 0;
        while j < n { if keys[j] == k { newest = Some(j); } j += 1; }
        if let Some(j) = newest {
            if times[j] >= since {
                vsym::cover("rotate.key-at-or-after", true);
                match ops.get(&["1_", &k.to_string()].concat()) {
                    Some(rec) => { vsym::check("rotate.labelled-with-most-recent-kind", rec.opp.to_u8() == kinds[j]); vsym::check("rotate.most-recent-time", rec.timestamp == times[j]); }
                    None => vsym::check("rotate.complete", false),
                }
            }
        }
        k += 1;
    }
    let (_size, count) = get_op_log_size();
    // a record that hits the size limit is written again into the next file: duplicates are allowed, losses are not
    vsym::check("rotate.nothing-dropped-within-size", count >= n as u64);
    vsym::cover("rotate.rotated", vstd::path::Path::new(&String::from("dbs/oplog")).exists());
}
