//! C13 — arbiter databases never apply or lose a conflicting write silently (single node)
use crate::bo::*;
use crate::harness::common::*;
use crate::process_request::process_request;
use futures::channel::mpsc::Receiver;

/// the notice / record text of a conflict: "resolve <opid> <db> <version> <key> <old> <new>"
fn notice_fields(line: &String) -> (String, String) {
    let mut it = line.splitn(4, " ");
    let _w = it.next(); let opid = it.next().unwrap_or("").to_string(); let _db = it.next(); let rest = it.next().unwrap_or("");
    let ver = rest.splitn(2, " ").next().unwrap_or("").to_string();
    (opid, ver)
}

pub fn c13_events() {
    let n = mk_primary();
    mk_db(&n.dbs, "d", "arbiter");
    let (mut w, mut wrx) = db_client(&n.dbs, "d");
    process_request("set k v0", &n.dbs, &mut w);
    process_request("set k v1", &n.dbs, &mut w);          // version 1: base version 0 is stale
    let steps = vsym::param("events", 3);
    let mut arbiter: Option<(Client, Receiver<String>)> = None;
    let mut ever_registered = false;
    let mut pending: Vec<(String, String, String)> = Vec::new();    // (notice text, conflicting value, op id) in arrival order
    let mut expect_value = String::from("v1");
    let mut i = 0;
    while i < steps {
        let ev = vsym::choice("event", 6);
        vsym::tag(&["e", &i.to_string(), "=", &ev.to_string()].concat());
        if ev == 0 {
            // a (new) arbiter registers: it must be sent exactly the unresolved notices, in order
            let (mut a, mut arx) = db_client(&n.dbs, "d");
            let r = process_request("arbiter", &n.dbs, &mut a);
            vsym::check("arbiter.registered", is_ok(&r));
            let got = drain(&mut arx);
            vsym::check("arbiter.gets-exactly-the-unresolved", got.len() == pending.len());
            let mut j = 0;
            while j < got.len() && j < pending.len() { vsym::check("arbiter.notice-text", got[j] == pending[j].0); j += 1; }
            arbiter = Some((a, arx)); ever_registered = true;
        } else if ev == 1 {
            if let Some((mut a, arx)) = arbiter.take() { process_request("unwatch-all", &n.dbs, &mut a); a.left(&n.dbs); }
        } else if ev == 2 || ev == 3 {
            // a plain write may also carry exactly the value the key holds (a client writing the value back) while a conflict is pending
            let same = ev == 2 && pending.len() > 0 && vsym::any_bool("writes-back-the-stored-value");
            if same { vsym::cover("write.same-value-over-pending", true); }
            let val = if same { peek(&n.dbs, "d", "k").unwrap().value } else { ["w", &i.to_string()].concat() };
            let line = if ev == 2 { ["set k ", &val].concat() } else { let ver = vsym::any_i32("ver"); vsym::assume(ver >= 0 && ver <= 3); ["set-safe k ", &ver.to_string(), " ", &val].concat() };
            let before = peek(&n.dbs, "d", "k").unwrap();
            let r = process_request(&line, &n.dbs, &mut w);
            let after = peek(&n.dbs, "d", "k").unwrap();
            if is_ok(&r) {
                // applied: only legal when nothing is pending on the key
                vsym::check("write.not-applied-over-a-pending-conflict", pending.len() == 0);
                vsym::check("write.applied-value", after.value == val);
                expect_value = val.clone();
            } else {
                vsym::check("write.refused-or-queued-keeps-value", after.value == before.value);
                if !ever_registered {
                    vsym::check("conflict.refused-without-arbiter-leaves-no-record", n.dbs.map.read().unwrap().get(&String::from("d")).unwrap().list_conflicts_keys(&String::from("k")).len() == pending.len());
                } else {
                    // recorded under $conflicts_k_<opid> and delivered to the registered arbiter (or kept for the next one)
                    let recs = n.dbs.map.read().unwrap().get(&String::from("d")).unwrap().list_conflicts_keys(&String::from("k"));
                    let mut unresolved: Vec<String> = Vec::new();
                    for rk in recs.iter() { let v = peek(&n.dbs, "d", rk).unwrap().value; if !v.starts_with("resolved") { unresolved.push(v); } }
                    vsym::check("conflict.recorded", unresolved.len() == pending.len() + 1);
                    if unresolved.len() == pending.len() + 1 {
                        // the new record is the one not seen before
                        let mut newest = String::new();
                        for u in unresolved.iter() { let mut seen = false; for p in pending.iter() { if p.0 == *u { seen = true; } } if !seen { newest = u.clone(); } }
                        vsym::check("conflict.record-carries-the-write", newest.ends_with(&[" ", &val].concat()));
                        if let Some((_, arx)) = arbiter.as_mut() {
                            let got = drain(arx);
                            vsym::check("conflict.delivered-to-arbiter", got.len() == 1 && got[0] == newest);
                        }
                        let (opid, _) = notice_fields(&newest);
                        pending.push((newest, val.clone(), opid));
                    }
                    vsym::cover("conflict.queued", true);
                }
            }
        } else {
            // the arbiter resolves the oldest (event 4) or the newest (event 5: answers out of queue order) pending conflict in favour
            // of the conflicting write, echoing op id and version of the notice
            if pending.len() > (if ev == 5 { 1 } else { 0 }) && arbiter.is_some() {
                let (notice, val, opid) = if ev == 5 { vsym::cover("resolve.out-of-order", true); let l = pending.len() - 1; pending.remove(l) } else { pending.remove(0) };
                let (_o, ver) = notice_fields(&notice);
                let a = &mut arbiter.as_mut().unwrap().0;
                let r = process_request(&["resolve ", &opid, " d k ", &ver, " ", &val].concat(), &n.dbs, a);
                vsym::check("resolve.accepted", is_ok(&r));
                expect_value = val.clone();
                let after = peek(&n.dbs, "d", "k").unwrap();
                vsym::check("resolve.key-holds-resolution", after.value == val);
                vsym::check("resolve.still-locked-iff-more-pending", (after.version == -2) == (pending.len() > 0));
                vsym::cover("resolve.done", true);
                drain(&mut arbiter.as_mut().unwrap().1);
            }
        }
        i += 1;
    }
    // quiescence: when nothing is pending the key holds the last applied / resolved value and is writable again
    if pending.len() == 0 {
        let k = peek(&n.dbs, "d", "k").unwrap();
        vsym::check("final.value", k.value == expect_value);
        vsym::check("final.not-locked", k.version != -2);
        let r = process_request("set k last", &n.dbs, &mut w);
        vsym::check("final.writable-again", is_ok(&r) && peek(&n.dbs, "d", "k").unwrap().value == "last");
    } else {
        vsym::check("pending.key-locked", peek(&n.dbs, "d", "k").unwrap().version == -2);
    }
}
