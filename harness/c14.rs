//! C14 — every operation causes a bounded message burst, then silence
use crate::bo::*;
use crate::harness::cluster::*;
use crate::harness::common::*;
use crate::process_request::process_request;

pub fn c14_burst() {
    let secondaries = vsym::param("secondaries", 1);
    let mut cl = mk_cluster(secondaries);
    let (mut admin, mut arx) = admin_client(&cl.nodes[0].dbs);
    // conflict strategy of the database: 0 arbiter (default), 1 newer (stale versioned writes are resolved, not refused), 2 none
    let strat = vsym::param("dbstrategy", 0);
    process_request(if strat == 1 { "create-db d tok newer" } else if strat == 2 { "create-db d tok none" } else { "create-db d tok arbiter" }, &cl.nodes[0].dbs, &mut admin);
    vsym::assume(cl.settle(80, false).is_some());
    let (mut c0, mut r0) = db_client(&cl.nodes[0].dbs, "d");
    process_request("set k 4", &cl.nodes[0].dbs, &mut c0);
    process_request("set k 5", &cl.nodes[0].dbs, &mut c0);
    vsym::assume(cl.settle(120, false).is_some());
    // optional primary hand-over before the operation: the old primary n1 stays in the cluster as a secondary (it yielded to the
    // older candidate: election_eval), n2 claims the role with the real election_win, the supervisors and SetPrimary handlers do the rest
    let mut prim = 0;
    if vsym::param("handover", 0) == 1 {
        cl.supervise = true;
        cl.nodes[0].dbs.node_state.swap(ClusterRole::Secoundary as usize, vstd::sync::atomic::Ordering::Relaxed);
        crate::election_ops::election_win(&cl.nodes[1].dbs);
        vsym::assume(cl.settle(200, false).is_some());
        prim = 1;
        vsym::check("handover.one-primary", cl.nodes[1].dbs.is_primary() && !cl.nodes[0].dbs.is_primary());
        vsym::cover("handover.done", true);
    }
    // an arbiter session at a solver-chosen node (conflicts are then recorded and forwarded instead of refused)
    let arb_at = vsym::choice("arbiter-at", cl.nodes.len() + 1);
    vsym::tag_i("arbiter-at", arb_at as i64);
    let (mut arb, mut arb_rx) = new_client();
    if arb_at < cl.nodes.len() { process_request("use-db d tok", &cl.nodes[arb_at].dbs, &mut arb); process_request("arbiter", &cl.nodes[arb_at].dbs, &mut arb); }
    vsym::assume(cl.settle(80, false).is_some());
    let base = cl.inter_node_messages();
    let mut l = 0; let mut base_sec = 0;
    while l < cl.links.len() { if cl.links[l].from != prim && cl.links[l].to != prim { base_sec += cl.links[l].forwarded; } l += 1; }
    // one client operation at a solver-chosen node
    let at = vsym::choice("node", cl.nodes.len());
    vsym::tag_i("node", at as i64);
    let words = ["set k 7", "set-safe k 0 9", "remove k", "increment k 2", "get k", "keys", "watch k", "create-user u t", "set-permissions u r a*", "snapshot false", "create-db e tok", "resolve 1 d k 2 8", "unwatch-all", "arbiter"];
    let w = vsym::choice("command", words.len());
    vsym::tag(words[w]);
    let (mut c, mut rx) = admin_client(&cl.nodes[at].dbs);
    process_request("use-db d tok", &cl.nodes[at].dbs, &mut c);
    let r = process_request(words[w], &cl.nodes[at].dbs, &mut c);
    let settled = cl.settle(vsym::param("budget", 80), vsym::param("orders", 0) == 1);
    vsym::check("burst.quiesces", settled.is_some());
    if settled.is_some() {
        let msgs = cl.inter_node_messages() - base;
        // one forward to the primary, one copy per secondary, one acknowledgement per copy (+ the reply line to the forward)
        vsym::check("burst.bounded", msgs <= 2 + 2 * secondaries + 2 * secondaries);
        vsym::tag_i("messages", msgs as i64);
    }
    let mut l = 0; let mut sec = 0;
    while l < cl.links.len() { if cl.links[l].from != prim && cl.links[l].to != prim { sec += cl.links[l].forwarded; } l += 1; }
    vsym::check("burst.secondary-never-fans-out", sec == base_sec);
}
