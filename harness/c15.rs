//! C15 — pending-operation accounting is exact and acknowledgements are idempotent
use crate::bo::*;
use crate::harness::common::*;
use crate::process_request::process_request;

/// events: register(op, node) / ack(op, node) with symbolic op ids and node names (duplicate, early and foreign acks included);
/// oracle: the set of (op, node) registered and not yet acknowledged after registration
pub fn c15_events() {
    let n = mk_primary();
    let (mut admin, mut rx) = admin_client(&n.dbs);
    let steps = vsym::param("events", 4);
    let nops = vsym::param("ops", 2) as u64;
    let nnodes = vsym::param("nodes", 2);
    let mut model: Vec<(u64, String, bool)> = Vec::new();     // (op, node, acked)
    let mut i = 0;
    while i < steps {
        let op = vsym::any_u64("op");
        vsym::assume(op >= 101 && op < 101 + nops);
        let node = vsym::any_str("node", 1);
        vsym::assume(node == "a" || node == "b" || (nnodes > 2 && node == "c"));
        let is_reg = vsym::any_bool("register");
        // oracle lookups
        let mut idx: Option<usize> = None;
        let mut j = 0;
        while j < model.len() { if model[j].0 == op && model[j].1 == node { idx = Some(j); } j += 1; }
        if is_reg {
            vsym::assume(idx.is_none());                   // each (op, node) is targeted at most once
            let msg = n.dbs.register_pending_opp(op, String::from("set k v"), &node);
            vsym::check("register.message", msg == ["rp ", &op.to_string(), " set k v"].concat());
            model.push((op, node.clone(), false));
        } else {
            // through the real `ack <op> <node>` command of an authenticated peer
            let before = n.dbs.get_pending_opp_copy(op).map(|m| m.count_acknowledged());
            let r = process_request(&["ack ", &op.to_string(), " ", &node].concat(), &n.dbs, &mut admin);
            vsym::check("ack.reply-ok", is_ok(&r));
            let counted = match idx { Some(j) => !model[j].2, None => false };
            if let Some(j) = idx { model[j].2 = true; }
            vsym::cover("ack.counted", counted);
            vsym::cover("ack.duplicate-or-foreign", !counted);
            let after = n.dbs.get_pending_opp_copy(op).map(|m| m.count_acknowledged());
            if let (Some(b), Some(a)) = (before, after) {
                if counted { vsym::check("ack.counted-once", a == b + 1); } else { vsym::check("ack.idempotent", a == b); }
            }
        }
        // accounting after every event
        let mut o = 101;
        let mut expect_pending = 0usize;
        while o < 101 + nops {
            let mut registered = 0usize; let mut acked = 0usize; let mut j = 0;
            while j < model.len() { if model[j].0 == o { registered += 1; if model[j].2 { acked += 1; } } j += 1; }
            let pending = registered > acked;
            if pending { expect_pending += 1; }
            match n.dbs.get_pending_opp_copy(o) {
                Some(m) => {
                    vsym::check("pending.exactly-until-all-acked", pending);
                    vsym::check("pending.never-negative", m.count_acknowledged() <= m.count_replication());
                    vsym::check("pending.not-full-while-pending", !m.is_full_acknowledged());
                }
                None => { vsym::check("pending.stays-while-unacked", !pending); }
            }
            o += 1;
        }
        vsym::check("pending.count", n.dbs.pending_opps.read().unwrap().len() == expect_pending);
        i += 1;
    }
}

/// concurrent part: the acknowledgement of (op, a) races with the registration of the same operation for the next target b
/// (replicate_message_to_all registers and sends node by node, a fast first secondary acknowledges before the second
/// registration); all interleavings at lock-acquisition granularity. Afterwards the operation must still be pending (b has not
/// acknowledged), a duplicate ack of a changes nothing, and b's ack brings the count back to zero.
pub fn c15_race() {
    let n = mk_primary();
    let (mut admin, mut rx) = admin_client(&n.dbs);
    n.dbs.register_pending_opp(101, String::from("set k v"), &String::from("a"));
    quiet_client(&admin); n.dbs.map.set_quiet(1);
    let d1 = n.dbs.clone(); let d2 = n.dbs.clone();
    let t1 = vsym::spawn(move || { let r = process_request("ack 101 a", &d1, &mut admin); (is_ok(&r), admin) });
    let t2 = vsym::spawn(move || { d2.register_pending_opp(101, String::from("set k v"), &String::from("b")); true });
    let (ok1, mut admin) = vsym::join(t1); vsym::join(t2);
    vsym::check("race.ack-reply-ok", ok1);
    // b was targeted and has not acknowledged: the operation is pending, whatever the order was
    let m = n.dbs.get_pending_opp_copy(101);
    vsym::check("race.still-pending-until-b-acks", m.is_some());
    vsym::cover("race.ack-before-second-registration", match &m { Some(x) => x.count_acknowledged() <= 1, None => false });
    vsym::check("race.pending-count", n.dbs.pending_opps.read().unwrap().len() == 1);
    process_request("ack 101 a", &n.dbs, &mut admin);
    vsym::check("race.duplicate-ack-changes-nothing", n.dbs.get_pending_opp_copy(101).is_some());
    process_request("ack 101 b", &n.dbs, &mut admin);
    vsym::check("race.back-to-zero", n.dbs.pending_opps.read().unwrap().len() == 0);
}
