//! C16 — after any restart the op-log is either discarded or still decodes correctly
use crate::bo::*;
use crate::disk_ops::*;
use crate::harness::cluster::*;
use crate::harness::common::*;
use crate::process_request::process_request;
use crate::replication_ops::start_replication_thread;
use futures::channel::mpsc::{channel, Receiver, Sender};
use vstd::io::Read;
use vstd::sync::Arc;

/// (time, key id, db id, op) of every record of the current op-log file, in file order
fn read_log() -> Vec<(u64, u64, u64, u8)> {
    let mut out = Vec::new();
    let name = Oplog::get_op_log_file_name();
    if !vstd::path::Path::new(&name).exists() { return out; }
    let mut f = vstd::fs::File::open(name).unwrap();
    loop {
        let mut t = [0u8; 8]; let mut k = [0u8; 8]; let mut d = [0u8; 8]; let mut o = [0u8; 1];
        let n = f.read(&mut t).unwrap();
        if n < 8 { break; }
        f.read(&mut k).unwrap(); f.read(&mut d).unwrap(); f.read(&mut o).unwrap();
        out.push((u64::from_le_bytes(t), u64::from_le_bytes(k), u64::from_le_bytes(d), o[0]));
    }
    out
}
/// a node as `start_db` builds it (key map and op-log validity from disk, databases loaded) with its replication loop running
fn boot(name: &str) -> CNode {
    let (s1, sup_rx): (Sender<String>, Receiver<String>) = channel(1000);
    let (s2, rep_rx): (Sender<String>, Receiver<String>) = channel(1000);
    let keys_map = load_keys_map_from_disk();
    let valid = is_oplog_valid();
    if !valid { Oplog::clean_op_log_metadata_files(); }
    let dbs = crate::db_ops::create_init_dbs(String::from("user"), String::from("pwd"), String::from(name), String::from(name), s1, s2, keys_map, valid);
    Databases::load_all_dbs(&dbs);
    dbs.node_state.swap(ClusterRole::Primary as usize, vstd::sync::atomic::Ordering::Relaxed);
    let repl: Loop = Box::pin(start_replication_thread(rep_rx, dbs.clone()));
    CNode { dbs, sup_rx, repl, name: String::from(name) }
}

pub fn c16_history() {
    let mut node = boot("n1");
    let (mut admin, mut arx) = admin_client(&node.dbs);
    let steps = vsym::param("steps", 4);
    // the writer's intent for every record appended to the op-log since it was last discarded: (db name, key name or "" for db-level records)
    let mut intent: Vec<(String, String)> = Vec::new();
    let dbnames = ["da", "db"]; let keynames = ["k0", "k1", "k2"];
    let mut created = [false, false];
    let mut snapshotted = [false, false];
    let mut booted_with_discarded_log = false;
    // a key-map snapshot (explicit snapshot or clean shutdown) was requested since this node started
    let mut key_snapshot_since_boot = false;
    if vsym::param("prefix", 0) == 1 {
        // first phase: database da exists, holds key k0 and was persisted (key map saved, op-log valid)
        process_request("create-db da tok", &node.dbs, &mut admin);
        { let (mut c, mut rx) = db_client(&node.dbs, "da"); process_request("set k0 v", &node.dbs, &mut c); process_request("unwatch-all", &node.dbs, &mut c); c.left(&node.dbs); }
        process_request("snapshot false da", &node.dbs, &mut admin);
        poll_once(&mut node.repl);
        snapshot_all_pendding_dbs(&node.dbs);
        created[0] = true; snapshotted[0] = true;
    }
    let mut i = 0;
    while i < steps {
        let ev = vsym::choice("step", 8);
        vsym::tag(&["s", &i.to_string(), "=", &ev.to_string()].concat());
        if ev <= 1 {
            // create-db da / db
            if !created[ev] {
                let r = process_request(&["create-db ", dbnames[ev], " tok"].concat(), &node.dbs, &mut admin);
                if is_ok(&r) { created[ev] = true; intent.push((String::from(dbnames[ev]), String::new())); }
            }
        } else if ev <= 4 {
            // write key k0 / k1 / k2 in the first database that exists
            let d = if created[0] { Some(0) } else if created[1] { Some(1) } else { None };
            if let Some(d) = d {
                let (mut c, mut rx) = db_client(&node.dbs, dbnames[d]);
                let r = process_request(&["set ", keynames[ev - 2], " v"].concat(), &node.dbs, &mut c);
                if is_ok(&r) { intent.push((String::from(dbnames[d]), String::from(keynames[ev - 2]))); }
                process_request("unwatch-all", &node.dbs, &mut c); c.left(&node.dbs);
                intent.push((String::from(dbnames[d]), String::from("$connections")));  // use-db / left rewrite the session counter key (replicated sets too)
            }
        } else if ev == 5 || ev == 7 {
            // snapshot of database da / db (declutter: key map + databases)
            let d = if ev == 5 { 0 } else { 1 };
            if created[d] {
                snapshotted[d] = true;
                let r = process_request(&["snapshot false ", dbnames[d]].concat(), &node.dbs, &mut admin);
                poll_once(&mut node.repl);
                snapshot_all_pendding_dbs(&node.dbs);
                key_snapshot_since_boot = true;
                vsym::tag("snapshotted");
            }
        } else {
            // restart: clean (safe_shutdown first) or kill
            poll_once(&mut node.repl);
            if (created[0] && !snapshotted[0]) || (created[1] && !snapshotted[1]) { vsym::tag("restart-with-a-database-never-snapshotted"); }
            let clean = vsym::any_bool("clean-shutdown");
            if clean { crate::db_ops::safe_shutdown(&node.dbs); key_snapshot_since_boot = true; }
            // recorded finding C16-missing-flag-file-reads-as-valid: decided from the HISTORY (was a key-map snapshot requested in this
            // life?), not from the node's own flag - a change that makes the snapshot skip its work must not hide behind the finding
            if booted_with_discarded_log && !key_snapshot_since_boot { vsym::tag("previous-boot-discarded-the-log-and-no-key-snapshot-since"); }
            // what every record of the log means to the node that wrote it
            let before = read_log();
            let mut meaning: Vec<(String, String)> = Vec::new();
            {
                let idk = node.dbs.id_keys_map.read().unwrap(); let idd = node.dbs.id_name_db_map.read().unwrap();
                let mut j = 0;
                while j < before.len() {
                    let (_t, key_id, db_id, op) = before[j];
                    let dbn = match idd.get(&db_id) { Some(s) => s.clone(), None => String::from("?") };
                    let kn = if op == 0 || op == 1 { match idk.get(&key_id) { Some(s) => s.clone(), None => String::from("?") } } else { String::new() };
                    meaning.push((dbn, kn));
                    j += 1;
                }
            }
            node = boot("n1");
            booted_with_discarded_log = !node.dbs.is_oplog_valid.load(vstd::sync::atomic::Ordering::Relaxed);
            key_snapshot_since_boot = false;
            vsym::tag(if clean { "clean-restart" } else { "kill-restart" });
            let r = admin_client(&node.dbs); admin = r.0; arx = r.1;
            created = [node.dbs.has_db("da"), node.dbs.has_db("db")]; snapshotted = created;
            let kept = node.dbs.is_oplog_valid.load(vstd::sync::atomic::Ordering::Relaxed) && read_log().len() > 0;
            vsym::cover("restart.log-kept", kept); vsym::cover("restart.log-discarded", !kept);
            if kept {
                // every record still decodes to the database and key it was written for
                let log = read_log();
                let idk = node.dbs.id_keys_map.read().unwrap(); let idd = node.dbs.id_name_db_map.read().unwrap();
                let mut j = 0;
                while j < log.len() {
                    let (_t, key_id, db_id, op) = log[j];
                    if j < meaning.len() {
                        vsym::check("decode.record-still-names-its-database", match idd.get(&db_id) { Some(s) => *s == meaning[j].0, None => false });
                        if op == 0 || op == 1 { vsym::check("decode.record-still-names-its-key", match idk.get(&key_id) { Some(s) => *s == meaning[j].1, None => false }); }
                    }
                    j += 1;
                }
            } else { intent.clear(); }
        }
        poll_once(&mut node.repl);
        // identifiers in use are unique
        let log = read_log();
        {
            let km = node.dbs.keys_map.read().unwrap();
            let mut ids: Vec<u64> = km.values().map(|v| *v).collect(); ids.sort();
            let mut j = 1; while j < ids.len() { vsym::check("ids.keys-unique", ids[j] != ids[j - 1]); j += 1; }
            let m = node.dbs.map.read().unwrap();
            let mut dids: Vec<usize> = m.values().map(|d| d.metadata.id).collect(); dids.sort();
            let mut j = 1; while j < dids.len() { vsym::check("ids.databases-unique", dids[j] != dids[j - 1]); j += 1; }
        }
        i += 1;
    }
}

/// what every record of the log on disk means to the (still running) node that wrote it
fn meanings(node: &CNode) -> Vec<(String, String)> {
    let before = read_log();
    let mut meaning: Vec<(String, String)> = Vec::new();
    let idk = node.dbs.id_keys_map.read().unwrap(); let idd = node.dbs.id_name_db_map.read().unwrap();
    let mut j = 0;
    while j < before.len() {
        let (_t, key_id, db_id, op) = before[j];
        let dbn = match idd.get(&db_id) { Some(s) => s.clone(), None => String::from("?") };
        let kn = if op == 0 || op == 1 { match idk.get(&key_id) { Some(s) => s.clone(), None => String::from("?") } } else { String::new() };
        meaning.push((dbn, kn));
        j += 1;
    }
    meaning
}
fn check_decodes(node: &CNode, meaning: &Vec<(String, String)>, tag: &str) -> bool {
    let kept = node.dbs.is_oplog_valid.load(vstd::sync::atomic::Ordering::Relaxed) && read_log().len() > 0;
    if kept {
        let log = read_log();
        let idk = node.dbs.id_keys_map.read().unwrap(); let idd = node.dbs.id_name_db_map.read().unwrap();
        let mut j = 0;
        while j < log.len() {
            let (_t, key_id, db_id, op) = log[j];
            if j < meaning.len() {
                vsym::check(&[tag, ".record-still-names-its-database"].concat(), match idd.get(&db_id) { Some(s) => *s == meaning[j].0, None => false });
                if op == 0 || op == 1 { vsym::check(&[tag, ".record-still-names-its-key"].concat(), match idk.get(&key_id) { Some(s) => *s == meaning[j].1, None => false }); }
            }
            j += 1;
        }
    }
    kept
}
/// kill at any instant: the node dies at a solver-chosen file-system operation inside the window {first write of a new key
/// (key-id registration, flag update, op-log append); optional key-map + database snapshot; first write of another new key;
/// optional clean shutdown}; it restarts, a further new key is written, it is killed and restarts again
pub fn c16_crash() {
    let mut node = boot("n1");
    let (mut admin, mut arx) = admin_client(&node.dbs);
    process_request("create-db da tok", &node.dbs, &mut admin);
    { let (mut c, mut rx) = db_client(&node.dbs, "da"); process_request("set k0 v", &node.dbs, &mut c); process_request("unwatch-all", &node.dbs, &mut c); c.left(&node.dbs); }
    process_request("snapshot false da", &node.dbs, &mut admin);
    poll_once(&mut node.repl);
    snapshot_all_pendding_dbs(&node.dbs);
    if vsym::param("second-boot", 0) == 1 {
        // the window opens on a node that was itself started from disk (valid log kept)
        crate::db_ops::safe_shutdown(&node.dbs);
        node = boot("n1");
        let r = admin_client(&node.dbs); admin = r.0; arx = r.1;
    }
    let k = vsym::any_u64("crash-after-ops"); vsym::assume(k < 10_000);
    unsafe { vstd::vfs::CRASH_AT = vstd::vfs::OPS + k; }
    { let (mut c, mut rx) = db_client(&node.dbs, "da"); process_request("set k1 v", &node.dbs, &mut c); process_request("unwatch-all", &node.dbs, &mut c); c.left(&node.dbs); }
    poll_once(&mut node.repl);
    let with_snapshot = vsym::any_bool("snapshot-in-window");
    if with_snapshot {
        process_request("snapshot false da", &node.dbs, &mut admin);
        poll_once(&mut node.repl);
        snapshot_all_pendding_dbs(&node.dbs);
    }
    vsym::tag(if with_snapshot { "snapshot-in-window" } else { "no-snapshot-in-window" });
    { let (mut c, mut rx) = db_client(&node.dbs, "da"); process_request("set k2 v", &node.dbs, &mut c); process_request("unwatch-all", &node.dbs, &mut c); c.left(&node.dbs); }
    poll_once(&mut node.repl);
    let clean = vsym::any_bool("clean-shutdown");
    if clean { crate::db_ops::safe_shutdown(&node.dbs); }
    let died = unsafe { vstd::vfs::OPS > vstd::vfs::CRASH_AT };
    vsym::cover("crash.inside-window", died); vsym::cover("crash.none", !died);
    vsym::tag(if died { "killed-inside-window" } else { "window-completed" });
    unsafe { vstd::vfs::CRASH_AT = u64::MAX; }
    let meaning = meanings(&node);
    node = boot("n1");
    let kept = check_decodes(&node, &meaning, "crash-decode");
    vsym::cover("crash.log-kept", kept && died); vsym::cover("crash.log-discarded", !kept && died);
    // life goes on: another new key, a kill between operations, a second restart
    if node.dbs.has_db("da") {
        { let (mut c, mut rx) = db_client(&node.dbs, "da"); process_request("set k3 v", &node.dbs, &mut c); process_request("unwatch-all", &node.dbs, &mut c); c.left(&node.dbs); }
        poll_once(&mut node.repl);
        {
            let km = node.dbs.keys_map.read().unwrap();
            let mut ids: Vec<u64> = km.values().map(|v| *v).collect(); ids.sort();
            let mut j = 1; while j < ids.len() { vsym::check("crash-ids.keys-unique", ids[j] != ids[j - 1]); j += 1; }
        }
        // the records written by the first life keep their first-life meaning; the new ones get this life's
        let mut meaning2 = meanings(&node);
        if kept { let mut j = 0; while j < meaning.len() && j < meaning2.len() { meaning2[j] = (meaning[j].0.clone(), meaning[j].1.clone()); j += 1; } }
        // (recorded finding C16-missing-flag-file-reads-as-valid: same check id and tag as in c16_history)
        if !kept { vsym::tag("previous-boot-discarded-the-log-and-no-key-snapshot-since"); }
        node = boot("n1");
        check_decodes(&node, &meaning2, "decode");
    }
}
