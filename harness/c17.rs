//! C17 — $connections equals the number of open sessions on the database
use crate::bo::*;
use crate::harness::common::*;
use crate::process_request::process_request;
use futures::channel::mpsc::Receiver;

fn counter(n: &Node, db: &str) -> String { match peek(&n.dbs, db, "$connections") { Some(v) => v.value, None => String::from("0") } }

pub fn c17_events() {
    let n = mk_primary();
    mk_db(&n.dbs, "d1", "none"); mk_db(&n.dbs, "d2", "none");
    let nsess = vsym::param("sessions", 2);
    let steps = vsym::param("events", 3);
    let mut sess: Vec<Option<(Client, Receiver<String>)>> = Vec::new();
    let mut sel: Vec<usize> = Vec::new();          // 0 none, 1 d1, 2 d2
    let mut s = 0; while s < nsess { sess.push(None); sel.push(0); s += 1; }
    let mut i = 0;
    while i < steps {
        let who = vsym::choice("session", nsess);
        let ev = vsym::choice("event", 5);
        vsym::tag(&["e", &i.to_string(), "=", &ev.to_string(), "@", &who.to_string()].concat());
        if sess[who].is_none() { sess[who] = Some(new_client()); sel[who] = 0; }   // (re)connect
        if ev == 4 {
            // disconnect: the sequence all three transports run
            let (mut c, rx) = sess[who].take().unwrap();
            process_request("unwatch-all", &n.dbs, &mut c);
            vsym::tag("left");
            c.left(&n.dbs);
            sel[who] = 0;
        } else {
            let c = &mut sess[who].as_mut().unwrap().0;
            if ev == 0 { let r = process_request("use-db d1 tok", &n.dbs, c); vsym::check("use-db.ok", is_ok(&r)); sel[who] = 1; }
            else if ev == 1 { let r = process_request("use-db d2 tok", &n.dbs, c); vsym::check("use-db.ok", is_ok(&r)); sel[who] = 2; }
            else if ev == 2 { let r = process_request("use-db d1 wrong", &n.dbs, c); vsym::check("use-db.bad-token-refused", is_error(&r)); }
            else { let r = process_request("get $$token", &n.dbs, c); vsym::check("failing-command.refused", is_error(&r)); }
        }
        let mut c1 = 0; let mut c2 = 0; let mut k = 0;
        while k < nsess { if sel[k] == 1 { c1 += 1; } if sel[k] == 2 { c2 += 1; } k += 1; }
        vsym::check("connections.d1-equals-open-sessions", counter(&n, "d1") == c1.to_string());
        vsym::check("connections.d2-equals-open-sessions", counter(&n, "d2") == c2.to_string());
        i += 1;
    }
}
