//! C18 — the S3 storage strategies restore what the disk strategy would
//! The real storage_data_on_cloud / load_all_dbs_from_cloud of both strategies run against the in-process bucket of the
//! aws_sdk_s3 shim (fault schedule: solver-chosen request index). Same history family and oracle as C06.
use crate::bo::*;
use crate::disk_ops::*;
use crate::harness::common::*;
use crate::process_request::process_request;

fn configure() -> usize {
    let strat = vsym::param("strategy", 1);
    let parts = vsym::param("partitions", 3);
    unsafe {
        vstd::vfs::ENV.push(("NUN_STORAGE_STRATEGY", if strat == 1 { "s3" } else { "s3_patition" }));
        vstd::vfs::ENV.push(("NUN_S3_NUMBER_OF_PARTITIONS", if parts == 1 { "1" } else if parts == 2 { "2" } else if parts == 3 { "3" } else { "10" }));
    }
    strat
}
/// stub fault schedule: 0 none, 1 the n-th PUT fails once, 2 the n-th PUT and every later one fail, 3 the n-th GET fails once
fn arm_faults() -> usize {
    let fault = vsym::param("fault", 0);
    if fault != 0 {
        let n = vsym::any_u64("failing-request-index");
        unsafe {
            if fault == 1 { aws_sdk_s3::PUT_FAIL_AT = n; }
            if fault == 2 { aws_sdk_s3::PUT_FAIL_AT = n; aws_sdk_s3::PUT_FAIL_ALWAYS = true; }
            if fault == 3 { aws_sdk_s3::GET_FAIL_AT = n; }
        }
    }
    fault
}
fn failed_puts() -> u64 { unsafe { aws_sdk_s3::FAILED_PUTS } }
fn failed_gets() -> u64 { unsafe { aws_sdk_s3::FAILED_GETS } }

pub fn c18_history() {
    let strat = configure();
    let mut n = mk_primary();
    // the history harness uses an arbiter database (identifier 1): the hard-coded metadata of the S3 loaders is right for it by
    // construction, so the data checks below stay sensitive; c18_two_dbs is the harness that looks at metadata
    let dbstrategy = if vsym::param("dbstrategy", 1) == 0 { "none" } else { "arbiter" };
    mk_db(&n.dbs, "d", dbstrategy);
    let (mut c, mut rx) = admin_client(&n.dbs);
    process_request("use-db d tok", &n.dbs, &mut c);
    let steps = vsym::param("ops", 3);
    let names = ["k0", "key1", "n"];
    // reference: current (value, version) per key; None = absent / removed
    let mut cur: Vec<Option<(String, i32)>> = vec![None, None, None];
    let mut snap: Option<Vec<Option<(String, i32)>>> = None;
    // touched[k]: key k was written or removed since the previous completed snapshot
    let mut touched = [false, false, false];
    let mut last_kind_reclaim = false;
    let id_before = { let m = n.dbs.map.read().unwrap(); m.get(&String::from("d")).unwrap().metadata.id };
    let mut snapshots = 0;
    if vsym::param("prefix", 0) == 2 {
        // small first phase (for many partitions): one key, persisted by a full snapshot
        let v0 = vsym::any_ascii("p0", 2);
        vsym::assume(is_ok(&process_request(&["set k0 ", &v0].concat(), &n.dbs, &mut c)));
        cur[0] = Some((v0, peek(&n.dbs, "d", "k0").unwrap().version));
        process_request("snapshot true", &n.dbs, &mut c); snapshot_all_pendding_dbs(&n.dbs);
        snap = Some(cur.clone()); last_kind_reclaim = true; snapshots = 1;
    }
    if vsym::param("prefix", 0) == 1 {
        // fixed first phase: both keys and the counter exist and were persisted by a full (reclaiming) snapshot
        let v0 = vsym::any_ascii("p0", 2); let v1 = vsym::any_ascii("p1", 3);
        vsym::assume(is_ok(&process_request(&["set k0 ", &v0].concat(), &n.dbs, &mut c)) && is_ok(&process_request(&["set key1 ", &v1].concat(), &n.dbs, &mut c)) && is_ok(&process_request("increment n 3", &n.dbs, &mut c)));
        cur[0] = Some((v0, peek(&n.dbs, "d", "k0").unwrap().version)); cur[1] = Some((v1, peek(&n.dbs, "d", "key1").unwrap().version));
        let p = peek(&n.dbs, "d", "n").unwrap(); cur[2] = Some((p.value.clone(), p.version));
        process_request("snapshot true", &n.dbs, &mut c); snapshot_all_pendding_dbs(&n.dbs);
        snap = Some(cur.clone()); last_kind_reclaim = true; snapshots = 1;
    }
    // restart_first = 1: the node is restarted after the persisted first phase, so the history below runs on a node whose keys
    // were LOADED from the bucket (not written by it in this life)
    if vsym::param("restart_first", 0) == 1 && snap.is_some() {
        n = restart_node("n1");
        // a node alone in its cluster elects itself at start-up (start_election: "Only one node in the cluster, will set as primary")
        n.dbs.node_state.swap(ClusterRole::Primary as usize, vstd::sync::atomic::Ordering::Relaxed);
        let r = admin_client(&n.dbs); c = r.0; rx = r.1;
        vsym::assume(is_ok(&process_request("use-db d tok", &n.dbs, &mut c)));
        vsym::cover("restart.first-done", true);
    }
    let fault = arm_faults();
    let mut untouched_at_last_snapshot = [false, false, false];
    let mut i = 0;
    while i < steps {
        let op = vsym::choice("op", 7);
        vsym::tag(&["o", &i.to_string(), "=", &op.to_string()].concat());
        if op == 0 || op == 1 {
            let v = vsym::any_ascii("val", 1 + (i % 3));
            vsym::assume(v != "<Empty>");
            let r = process_request(&["set ", names[op], " ", &v].concat(), &n.dbs, &mut c);
            vsym::assume(is_ok(&r));
            let ver = peek(&n.dbs, "d", names[op]).unwrap().version;
            cur[op] = Some((v, ver)); touched[op] = true;
        } else if op == 2 || op == 3 {
            process_request(&["remove ", names[op - 2]].concat(), &n.dbs, &mut c);
            cur[op - 2] = None; touched[op - 2] = true;
        } else if op == 4 {
            let r = process_request("increment n 3", &n.dbs, &mut c);
            vsym::assume(is_ok(&r));
            let p = peek(&n.dbs, "d", "n").unwrap();
            cur[2] = Some((p.value.clone(), p.version)); touched[2] = true;
        } else {
            unsafe { vstd::vmap::ITER_ROT = vsym::choice("iteration-rotation", vsym::param("rot", 1)); }
            let r = process_request(if op == 5 { "snapshot false" } else { "snapshot true" }, &n.dbs, &mut c);
            vsym::assume(is_ok(&r));
            let failed_before = failed_puts();
            if fault == 2 { vsym::expect_panic("Fail to store partition"); }
            snapshot_all_pendding_dbs(&n.dbs);
            unsafe { vstd::vmap::ITER_ROT = 0; }
            // the snapshot returned normally: every object it tried to upload must have made it (possibly after a retry)
            let pending_failed = unsafe { aws_sdk_s3::last_put_failed() };
            if pending_failed != 0 { vsym::tag("silent-upload-failure"); }
            vsym::check("fault.failed-upload-is-retried-or-reported", pending_failed == 0);
            vsym::cover("fault.put-failed", failed_puts() > failed_before);
            snap = Some(cur.clone()); last_kind_reclaim = op == 6; snapshots += 1;
            let mut k = 0; while k < 3 { untouched_at_last_snapshot[k] = !touched[k]; touched[k] = false; k += 1; }
            vsym::cover("snapshot.done", true);
        }
        i += 1;
    }
    if let Some(expected) = snap {
        // a failed download is reported by failing the start-up (both loaders panic: unwrap of the GET result / "Fail to load db from s3")
        if fault == 3 { vsym::expect_panic("unwrap"); vsym::expect_panic("Fail to load"); }
        vsym::tag(if last_kind_reclaim { "last-snapshot=full" } else { "last-snapshot=incremental" });
        let n2 = restart_node("n1");
        vsym::cover("fault.get-failed", failed_gets() > 0);
        vsym::check("restart.database-present", n2.dbs.has_db("d"));
        if n2.dbs.has_db("d") {
            let mut k = 0;
            while k < 3 {
                let got = peek(&n2.dbs, "d", names[k]);
                let unt = untouched_at_last_snapshot[k] && !last_kind_reclaim;
                match (&expected[k], got) {
                    (Some((v, ver)), Some(g)) => {
                        vsym::check("restart.value-as-snapshotted", g.value == *v); vsym::check("restart.version-as-snapshotted", g.version == *ver);
                        vsym::check("restart.loaded-key-is-live", g.state != ValueStatus::Deleted);
                    }
                    (Some(_), None) => { if unt { vsym::check("restart.key-untouched-since-previous-snapshot-still-present", false) } else { vsym::check("restart.snapshotted-key-present", false) } }
                    (None, Some(g)) => vsym::check("restart.removed-key-stays-removed", g.state == ValueStatus::Deleted),
                    (None, None) => {}
                }
                k += 1;
            }
            let m = n2.dbs.map.read().unwrap();
            let d = m.get(&String::from("d")).unwrap();
            vsym::check("restart.name-kept", d.name == "d");
            vsym::check("restart.conflict-strategy-kept", d.metadata.consensus_strategy == (if dbstrategy == "none" { ConsensuStrategy::None } else { ConsensuStrategy::Arbiter }));
            vsym::check("restart.identifier-kept", d.metadata.id == id_before);
            // the token was written once, before the first snapshot: after a second, incremental snapshot it is a key untouched since the previous one
            let tok_ok = match d.get_value(String::from("$$token")) { Some(t) => t.value == "tok", None => false };
            if snapshots >= 2 && !last_kind_reclaim { vsym::check("restart.token-untouched-since-previous-snapshot-still-present", tok_ok); } else { vsym::check("restart.token-kept", tok_ok); }
            vsym::check("restart.no-extra-database", m.len() == 2);
        }
    }
}

/// two databases whose names share a prefix ("d", "da"): each keeps its own keys, name, identifier and strategy
pub fn c18_two_dbs() {
    let strat = configure();
    let n = mk_primary();
    mk_db(&n.dbs, "d", "none");
    mk_db(&n.dbs, "da", "newer");
    let (mut c, mut rx) = admin_client(&n.dbs);
    let v0 = vsym::any_ascii("v0", 2); let v1 = vsym::any_ascii("v1", 3);
    process_request("use-db d tok", &n.dbs, &mut c);
    vsym::assume(is_ok(&process_request(&["set k0 ", &v0].concat(), &n.dbs, &mut c)));
    process_request("snapshot true", &n.dbs, &mut c);
    process_request("use-db da tok", &n.dbs, &mut c);
    vsym::assume(is_ok(&process_request(&["set key1 ", &v1].concat(), &n.dbs, &mut c)));
    process_request("snapshot true", &n.dbs, &mut c);
    let id_d = { let m = n.dbs.map.read().unwrap(); m.get(&String::from("d")).unwrap().metadata.id };
    let id_da = { let m = n.dbs.map.read().unwrap(); m.get(&String::from("da")).unwrap().metadata.id };
    snapshot_all_pendding_dbs(&n.dbs);
    let n2 = restart_node("n1");
    vsym::check("two.both-databases-present", n2.dbs.has_db("d") && n2.dbs.has_db("da"));
    if n2.dbs.has_db("d") && n2.dbs.has_db("da") {
        vsym::check("two.d-key", match peek(&n2.dbs, "d", "k0") { Some(g) => g.value == v0, None => false });
        vsym::check("two.da-key", match peek(&n2.dbs, "da", "key1") { Some(g) => g.value == v1, None => false });
        vsym::check("two.keys-do-not-leak-between-databases", peek(&n2.dbs, "d", "key1").is_none() && peek(&n2.dbs, "da", "k0").is_none());
        let m = n2.dbs.map.read().unwrap();
        let d = m.get(&String::from("d")).unwrap(); let da = m.get(&String::from("da")).unwrap();
        vsym::check("two.identifiers-kept", d.metadata.id == id_d && da.metadata.id == id_da);
        vsym::check("two.identifiers-distinct", d.metadata.id != da.metadata.id);
        vsym::check("two.strategies-kept", d.metadata.consensus_strategy == ConsensuStrategy::None && da.metadata.consensus_strategy == ConsensuStrategy::Newer);
    }
}
