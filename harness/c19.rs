//! C19 — newer-strategy databases accept every write; the last applied one wins
use crate::bo::*;
use crate::db_ops::*;
use crate::harness::common::*;
use crate::process_request::process_request;

/// sequential: writes (plain / versioned with any version) to one key of a `newer` database, op ids from the symbolic
/// clock (ties allowed); never refused, the reply names the stored value, versions only grow, one notification pair per
/// applied write and none otherwise
pub fn c19_seq() {
    let n = mk_primary();
    mk_db(&n.dbs, "d", "newer");
    unsafe { vstd::vclock::SYMBOLIC_CLOCK = true; }
    let (mut w, mut wrx) = db_client(&n.dbs, "d");
    process_request("watch k", &n.dbs, &mut w); drain(&mut wrx);
    let (mut c, mut rx) = db_client(&n.dbs, "d");
    let steps = vsym::param("writes", 3);
    let mut i = 0;
    let mut last_version: i32 = 0;
    while i < steps {
        let before = peek(&n.dbs, "d", "k");
        let versioned = vsym::any_bool("versioned");
        let ver = if versioned { let v = vsym::any_i32("ver"); vsym::assume(v >= 0 && v < 1000); v } else { -1 };
        let val = ["w", &i.to_string()].concat();
        // the function the Set handler calls; its reply names the stored value
        let r = {
            let m = n.dbs.map.read().unwrap();
            let db = m.get(&String::from("d")).unwrap();
            set_key_value(String::from("k"), val.clone(), ver, db, &n.dbs)
        };
        let after = peek(&n.dbs, "d", "k").unwrap();
        match r {
            Response::Set { key: _, value } => vsym::check("newer.reply-names-stored-value", value == after.value),
            _ => vsym::check("newer.never-refused", false),
        }
        let applied = match &before { Some(b) => after.version != b.version || after.value != b.value, None => true };
        // the incoming write lost against a newer (or equally old) stored change: nothing may be written and nobody notified
        let won = after.value == val;
        if !won {
            vsym::cover("newer.incoming-write-lost", true);
            if let Some(b) = &before { vsym::check("newer.losing-write-changes-nothing", after.version == b.version && after.value == b.value && after.opp_id == b.opp_id); }
        }
        match &before { Some(b) => { vsym::check("newer.version-only-grows", after.version >= b.version); if after.value != b.value { vsym::check("newer.version-grows-on-change", after.version > b.version); } }, None => {} }
        vsym::cover("newer.stale-write-seen", versioned && before.is_some() && ver < last_version);
        let notes = drain(&mut wrx);
        if !won { vsym::check("newer.no-notification-for-a-losing-write", notes.len() == 0); }
        else if applied {
            vsym::check("newer.notified-once-per-applied-write", notes.len() == 2 && notes[0] == ["changed k ", &after.value, "\n"].concat());
        } else {
            vsym::check("newer.no-notification-without-change", notes.len() == 0);
        }
        last_version = after.version;
        i += 1;
    }
    // and through the wire: a stale set-safe is answered ok, never with a version error
    let r = process_request("set-safe k 0 z", &n.dbs, &mut c);
    vsym::check("newer.wire-never-refused", is_ok(&r));
}

/// concurrent: two clients write the same key of a `newer` database (stale / current / plain versions), all lock-level
/// interleavings: nobody is refused, the final value is one of the two, the version grew, and the reply of the write that
/// the store kept last names the final value
pub fn c19_race2() {
    let n = mk_primary();
    mk_db(&n.dbs, "d", "newer");
    let cur = vsym::any_i32("cur"); vsym::assume(cur >= 2 && cur < 1000);
    poke(&n.dbs, "d", "k", &String::from("v0"), cur, ValueStatus::Ok, 0, 0);
    let va = vsym::any_i32("verA"); let vb = vsym::any_i32("verB");
    vsym::assume(va >= -1 && va <= cur + 1 && vb >= -1 && vb <= cur + 1);
    let d1 = n.dbs.clone(); let d2 = n.dbs.clone();
    let (mut c1, _r1) = db_client(&n.dbs, "d"); let (mut c2, _r2) = db_client(&n.dbs, "d");
    quiet_client(&c1); quiet_client(&c2); quiet_node(&n.dbs);
    let t1 = vsym::spawn(move || is_ok(&process_request(&["set-safe k ", &va.to_string(), " a"].concat(), &d1, &mut c1)));
    let t2 = vsym::spawn(move || is_ok(&process_request(&["set-safe k ", &vb.to_string(), " b"].concat(), &d2, &mut c2)));
    let ra = vsym::join(t1); let rb = vsym::join(t2);
    vsym::check("newer.race-never-refused", ra && rb);
    let fin = peek(&n.dbs, "d", "k").unwrap();
    vsym::check("newer.race-final-is-a-written-value", fin.value == "a" || fin.value == "b");
    vsym::check("newer.race-version-grew", fin.version > cur);
    vsym::cover("newer.race-a-last", fin.value == "a"); vsym::cover("newer.race-b-last", fin.value == "b");
}

/// replicas: a sequence of plain / versioned writes (any version in [0, cur+1]: below, at and above the current one) issued on
/// the primary of a cluster, each replicated before the next; no write is refused and every replica ends with the primary's value
pub fn c19_replicas() {
    use crate::harness::cluster::*;
    let secondaries = vsym::param("secondaries", 1);
    let mut cl = mk_cluster(secondaries);
    let (mut admin, mut arx) = admin_client(&cl.nodes[0].dbs);
    process_request("create-db d tok newer", &cl.nodes[0].dbs, &mut admin);
    vsym::assume(cl.settle(80, false).is_some());
    let (mut c, mut rx) = db_client(&cl.nodes[0].dbs, "d");
    process_request("set k a", &cl.nodes[0].dbs, &mut c);
    process_request("set k b", &cl.nodes[0].dbs, &mut c);
    process_request("set k c", &cl.nodes[0].dbs, &mut c);      // version 2: base versions 0 and 1 are stale
    vsym::assume(cl.settle(120, false).is_some());
    let steps = vsym::param("writes", 2);
    let all_orders = vsym::param("orders", 0) == 1;
    let mut i = 0;
    while i < steps {
        let cur = peek(&cl.nodes[0].dbs, "d", "k").unwrap().version;
        let versioned = vsym::any_bool("versioned");
        let val = ["w", &i.to_string()].concat();
        let line = if versioned { let v = vsym::any_i32("ver"); vsym::assume(v >= 0 && v <= cur + 1); vsym::cover("replicas.stale-version", v < cur); ["set-safe k ", &v.to_string(), " ", &val].concat() } else { ["set k ", &val].concat() };
        let r = process_request(&line, &cl.nodes[0].dbs, &mut c);
        vsym::check("replicas.never-refused-on-primary", !is_error(&r) && !is_version_error(&r));
        let settled = cl.settle(120, all_orders);
        vsym::check("replicas.quiesces", settled.is_some());
        let p = peek(&cl.nodes[0].dbs, "d", "k").unwrap();
        let mut s = 1;
        while s < cl.nodes.len() {
            let q = peek(&cl.nodes[s].dbs, "d", "k");
            vsym::check("replicas.same-value-as-primary", match &q { Some(q) => q.value == p.value, None => false });
            vsym::check("replicas.same-version-as-primary", match &q { Some(q) => q.version == p.version, None => false });
            s += 1;
        }
        i += 1;
    }
}
