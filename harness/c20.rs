//! C20 — HTTP replies line up, entry by entry, with the commands that caused them
use crate::bo::*;
use crate::harness::common::*;
use crate::network::http_ops::process_commands;
use crate::process_request::process_request;

pub fn c20_body() {
    let n = mk_primary();
    mk_db(&n.dbs, "d", "none");
    poke(&n.dbs, "d", "k", &String::from("v0"), 5, ValueStatus::Ok, 0, 0);
    let before_conn = match peek(&n.dbs, "d", "$connections") { Some(v) => v.value, None => String::from("0") };
    let (mut c, mut rx) = new_client();
    let nst = vsym::param("statements", 3);
    let kinds = ["auth user pwd", "auth user bad", "use-db d tok", "use-db d bad", "get k", "set k nv", "set-safe k 0 x", "remove k", "increment k", "keys k*", "create-db d tok", "get $$token", "create-db e tok", ""];
    let mut body: Vec<&str> = Vec::new();
    let mut own: Vec<String> = Vec::new();      // entry i as the property demands: produced by command i alone
    let mut known: Vec<String> = Vec::new();    // entry i under the recorded defect (a refusal that also queues a line leaves it for the next success)
    let mut queue: Vec<String> = Vec::new();
    // session model
    let mut authed = false; let mut selected = false; let mut val: Option<String> = Some(String::from("v0")); let mut ver = 5; let mut e_exists = false;
    let nodb = String::from("error no-db-selected\n");
    let mut i = 0;
    while i < nst {
        let k = vsym::choice("stmt", kinds.len());
        vsym::tag(&["s", &i.to_string(), "=", &k.to_string()].concat());
        body.push(kinds[k]);
        // (error text if refused, lines the command itself queues for the client)
        let needs_db = k >= 4 && k <= 9;
        let r: Option<(Option<String>, Vec<String>)> = if needs_db && !selected { Some((Some(nodb.clone()), vec![nodb.clone()])) } else { match k {
            0 => { authed = true; Some((None, vec![String::from("valid auth\n")])) }
            1 => Some((None, vec![String::from(if authed { "valid auth\n" } else { "invalid auth\n" })])),
            2 => { selected = true; Some((None, vec![])) }
            3 => Some((Some(String::from("Invalid token")), vec![])),
            4 => Some((None, vec![["value ", &val.clone().unwrap_or(String::from("<Empty>")), "\n"].concat()])),
            5 => { val = Some(String::from("nv")); ver += 1; Some((None, vec![])) }
            6 => Some((Some(String::from("Invalid version!")), vec![])),   // k was persisted: even its tombstone keeps a version >= 5, so base version 0 is stale
            7 => { if val.is_some() { val = None; ver += 1; } Some((None, vec![])) }
            8 => match &val { None => { val = Some(String::from("1")); Some((None, vec![])) }, Some(v) => if v == "1" { val = Some(String::from("2")); Some((None, vec![])) } else if v == "2" { val = Some(String::from("3")); Some((None, vec![])) } else { Some((Some(String::from("Key is not numeric")), vec![])) } },
            9 => Some((None, vec![if val.is_some() { String::from("keys ,k\n") } else { String::from("keys \n") }])),
            10 => Some((Some(String::from(if authed { "database already exists" } else { "Not auth" })), vec![])),
            11 => if !authed { Some((Some(String::from("To read security keys you must auth as an admin!")), vec![])) } else if !selected { Some((Some(nodb.clone()), vec![nodb.clone()])) } else { Some((None, vec![String::from("value tok\n")])) },
            12 => if !authed { Some((Some(String::from("Not auth")), vec![])) } else if e_exists { Some((Some(String::from("database already exists")), vec![])) } else { e_exists = true; Some((None, vec![String::from("create-db success\n")])) },
            _ => None,   // blank statement: no entry
        } };
        if let Some((err, queued)) = r {
            own.push(match &err { Some(m) => m.clone(), None => if queued.len() > 0 { queued[0].clone() } else { String::from("empty") } });
            for q in queued.iter() { queue.push(q.clone()); }
            known.push(match &err { Some(m) => m.clone(), None => if queue.len() > 0 { queue.remove(0) } else { String::from("empty") } });
        }
        i += 1;
    }
    let got = process_commands(&body, &mut rx, &n.dbs, &mut c);
    vsym::check("http.one-entry-per-command", got.len() == own.len());
    let mut j = 0; let mut shifted = false;
    while j < own.len() && j < got.len() {
        if own[j] != known[j] && !shifted { shifted = true; vsym::tag("stale-line-from-refusal"); }
        vsym::check("http.entry-is-own-reply", got[j] == own[j]);
        // independent of the recorded defect: the reply must at least be what the defect model predicts
        vsym::check("http.entry-matches-defect-model", got[j] == known[j]);
        j += 1;
    }
    // the session is released when the request ends
    let after_conn = match peek(&n.dbs, "d", "$connections") { Some(v) => v.value, None => String::from("0") };
    vsym::check("http.connection-released", after_conn == before_conn);
}

/// the real worker loop of start_http_client over the tiny_http shim: two consecutive requests on one node (A) and the second
/// request alone on an identically prepared node (B). The first request does not change the data; the reply to the second
/// request must be the same on both nodes (nothing of request 1 - a queued line, a selection, a login - leaks into request 2),
/// and when a request has ended its subscriptions and its connection count are released.
fn serve(n: &Node, bodies: &Vec<String>) -> Vec<String> {
    tiny_http::http_requests().clear(); tiny_http::http_responses().clear();
    for b in bodies.iter() { tiny_http::http_requests().push(b.clone()); }
    let dbs = n.dbs.clone();
    let r = vsym::run_until_end(move || { crate::network::http_ops::start_http_client(dbs, vstd::sync::Arc::new(String::from("0.0.0.0:0"))); });
    vsym::check("server.workers-wait-for-requests", r.is_none());
    tiny_http::http_responses().clone()
}
fn prepared(name: &str) -> Node {
    let n = mk_node(name, 1u128, ClusterRole::Primary);
    mk_db(&n.dbs, "d", "none");
    poke(&n.dbs, "d", "k", &String::from("v0"), 5, ValueStatus::Ok, 0, 0);
    n
}
pub fn c20_server() {
    let a = prepared("n1"); let b = prepared("n1");
    // request 1: statements that leave the data alone (refusals, reads, a login, a selection, a subscription)
    let first = ["get k", "auth user bad", "auth user pwd", "use-db d tok", "use-db d bad", "keys", "watch k", "get $$token", "increment k"];
    let second = ["use-db d tok", "get k", "auth user pwd", "keys", "set k nv", "get $$token", "create-db e tok"];
    let mut r1 = String::new();
    let n1 = vsym::param("first", 2);
    let mut i = 0;
    while i < n1 { let k = vsym::choice("first-stmt", first.len()); vsym::tag(&["a", &i.to_string(), "=", first[k]].concat()); if i > 0 { r1.push_str(";"); } r1.push_str(first[k]); i += 1; }
    let mut r2 = String::new();
    let n2 = vsym::param("second", 2);
    let mut i = 0;
    while i < n2 { let k = vsym::choice("second-stmt", second.len()); vsym::tag(&["b", &i.to_string(), "=", second[k]].concat()); if i > 0 { r2.push_str(";"); } r2.push_str(second[k]); i += 1; }
    let ra = serve(&a, &vec![r1.clone(), r2.clone()]);
    let rb = serve(&b, &vec![r2.clone()]);
    vsym::check("server.one-response-per-request", ra.len() == 2 && rb.len() == 1);
    if ra.len() == 2 && rb.len() == 1 {
        vsym::check("server.second-request-answered-as-if-alone", ra[1] == rb[0]);
    }
    // released when the request ends
    let conns = { let m = a.dbs.map.read().unwrap(); m.get(&String::from("d")).unwrap().connections_count() };
    vsym::check("server.connections-released", conns == 0);
    let watchers = { let m = a.dbs.map.read().unwrap(); let d = m.get(&String::from("d")).unwrap(); let w = d.watchers.map.read().unwrap(); let mut t = 0; for (_k, v) in w.iter() { t += v.len(); } t };
    vsym::check("server.subscriptions-released", watchers == 0);
    vsym::check("server.data-same-on-both-nodes", match (peek(&a.dbs, "d", "k"), peek(&b.dbs, "d", "k")) { (Some(x), Some(y)) => x.value == y.value && x.version == y.version, (None, None) => true, _ => false });
}
