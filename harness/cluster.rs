//! in-process cluster: N nodes in one address space, links are the real per-member channels, the replication loop of each
//! node is the real `start_replication_thread` coroutine polled by the harness. The link pump below mirrors what
//! `handle_client` (tcp_ops.rs) and the reader/writer futures of `start_replication` (replication_ops.rs) do with a line.
use crate::bo::*;
use crate::harness::common::*;
use crate::process_request::process_request;
use crate::replication_ops::start_replication_thread;
use futures::channel::mpsc::{channel, Receiver, Sender};
use vstd::collections::HashMap;
use vstd::sync::Arc;
use vstd::sync::atomic::Ordering;
use std::future::Future;
use std::pin::Pin;
use std::task::{Context, Waker};

pub type Loop = Pin<Box<dyn Future<Output = ()>>>;
/// poll once; true when the future finished
pub fn poll_once(f: &mut Loop) -> bool {
    let mut cx = Context::from_waker(Waker::noop());
    match f.as_mut().poll(&mut cx) { std::task::Poll::Ready(_) => true, std::task::Poll::Pending => false }
}
pub struct CNode { pub dbs: Arc<Databases>, pub sup_rx: Receiver<String>, pub repl: Loop, pub name: String }
/// connections opened by a real supervisor (add_*_to_* -> start_replication stub): (opening node, peer, peer is secondary of a primary, queue towards the peer)
pub static mut CONNECTIONS: Vec<(String, String, bool, Receiver<String>)> = Vec::new();
pub fn register_connection(from: String, to: String, is_primary: bool, rx: Receiver<String>) { unsafe { (&mut *std::ptr::addr_of_mut!(CONNECTIONS)).push((from, to, is_primary, rx)); } }
/// the node's real `start_replication_supervisor` coroutine; takes over the supervisor queue (call after the set-up traffic was drained)
pub fn start_supervisor(node: &mut CNode) -> Loop {
    let (_tx, dummy): (Sender<String>, Receiver<String>) = channel(1);
    let rx = std::mem::replace(&mut node.sup_rx, dummy);
    Box::pin(crate::replication_ops::start_replication_supervisor(rx, node.dbs.clone(), Arc::new(node.name.clone())))
}
pub fn mk_cnode(name: &str, process_id: u128, role: ClusterRole) -> CNode {
    let (s1, sup_rx): (Sender<String>, Receiver<String>) = channel(1000);
    let (s2, rep_rx): (Sender<String>, Receiver<String>) = channel(1000);
    let dbs = Arc::new(Databases::new(String::from("user"), String::from("pwd"), String::from(name), String::from(name), s1, s2, HashMap::new(), process_id, true));
    dbs.node_state.swap(role as usize, Ordering::Relaxed);
    let repl: Loop = Box::pin(start_replication_thread(rep_rx, dbs.clone()));
    CNode { dbs, sup_rx, repl, name: String::from(name) }
}
/// a replication connection opened by node `from` towards node `to`
pub struct Link {
    pub from: usize, pub to: usize,
    pub out_rx: Receiver<String>,           // what `from` queued for `to` (ClusterMember.sender side)
    pub server: Client, pub server_rx: Receiver<String>,   // session on `to` (handle_client)
    pub conn: Client, pub conn_rx: Receiver<String>,        // local client on `from` (start_replication reader)
    pub forwarded: usize, pub back: usize,
}
/// `from` opens its replication connection to `to`: registers `to` as a member with role `to_role` and authenticates as `start_replication` does
pub fn connect(nodes: &Vec<CNode>, from: usize, to: usize, to_role: ClusterRole, announce_primary: bool) -> Link {
    let (tx, out_rx): (Sender<String>, Receiver<String>) = channel(100);
    nodes[from].dbs.add_cluster_member(ClusterMember { name: nodes[to].name.clone(), role: to_role, sender: Some(tx) });
    let (mut server, mut server_rx) = Client::new_empty_and_receiver();
    process_request("auth user pwd", &nodes[to].dbs, &mut server);
    let hello = [if announce_primary { "set-primary " } else { "set-secoundary " }, &nodes[from].name].concat();
    process_request(&hello, &nodes[to].dbs, &mut server);
    drain(&mut server_rx);
    let (conn, conn_rx) = Client::new_empty_and_receiver();
    conn.auth.store(true, Ordering::Relaxed);
    { let mut m = conn.cluster_member.lock().unwrap(); *m = Some(ClusterMember { name: nodes[from].name.clone(), role: ClusterRole::Secoundary, sender: None }); }
    Link { from, to, out_rx, server, server_rx, conn, conn_rx, forwarded: 0, back: 0 }
}
pub struct Cluster { pub nodes: Vec<CNode>, pub links: Vec<Link>, pub supervise: bool, pub sups: Vec<Option<Loop>> }
/// primary n1 with `secondaries` secondaries n2.., full mesh of connections as the supervisor builds it
pub fn mk_cluster(secondaries: usize) -> Cluster {
    let mut nodes = vec![mk_cnode("n1", 1, ClusterRole::Primary)];
    let mut i = 0;
    while i < secondaries { nodes.push(mk_cnode(&["n", &(i + 2).to_string()].concat(), (i + 2) as u128, ClusterRole::Secoundary)); i += 1; }
    // every node lists itself (election-win / join bookkeeping of the supervisor)
    nodes[0].dbs.add_cluster_member(ClusterMember { name: String::from("n1"), role: ClusterRole::Primary, sender: None });
    let mut links = Vec::new();
    let mut s = 1;
    while s < nodes.len() {
        links.push(connect(&nodes, 0, s, ClusterRole::Secoundary, true));       // primary -> secondary (add_secondary_to_primary)
        links.push(connect(&nodes, s, 0, ClusterRole::Primary, false));        // secondary -> primary (add_primary_to_secoundary)
        let mut t = 1;
        while t < nodes.len() { if t != s { links.push(connect(&nodes, s, t, ClusterRole::Secoundary, false)); } t += 1; }   // secondary -> secondary
        s += 1;
    }
    // setup traffic (set-primary makes a secondary ask its supervisor to connect back) is not part of the operation under test
    let mut k = 0; while k < nodes.len() { drain(&mut nodes[k].sup_rx); k += 1; }
    let mut sups: Vec<Option<Loop>> = Vec::new(); let mut k = 0; while k < nodes.len() { sups.push(None); k += 1; }
    Cluster { nodes, links, supervise: false, sups }
}
impl Cluster {
    /// number of enabled events: one per link direction with a queued line, one per node whose replication loop has input
    pub fn enabled(&self) -> Vec<(usize, usize)> {
        let mut ev = Vec::new();
        let mut l = 0;
        while l < self.links.len() {
            if self.links[l].out_rx.len() > 0 { ev.push((0usize, l)); }
            if self.links[l].server_rx.len() > 0 { ev.push((1usize, l)); }
            l += 1;
        }
        let mut n = 0;
        while n < self.nodes.len() { if self.nodes[n].dbs.replication_sender.len() > 0 { ev.push((2usize, n)); } n += 1; }
        if self.supervise { let mut n = 0; while n < self.nodes.len() { if self.nodes[n].dbs.replication_supervisor_sender.len() > 0 { ev.push((3usize, n)); } n += 1; } }
        ev
    }
    pub fn step(&mut self, ev: (usize, usize)) {
        if ev.0 == 0 {
            let l = &mut self.links[ev.1];
            if let Ok(Some(line)) = l.out_rx.try_next() {
                l.forwarded += 1;
                // handle_client: process the line, then answer ok / error on the same session
                match process_request(&line, &self.nodes[l.to].dbs, &mut l.server) {
                    Response::Error { msg } => { let _ = l.server.sender.try_send(["error ", &msg, " \n"].concat()); }
                    _ => { let _ = l.server.sender.try_send(String::from("ok \n")); }
                }
            }
        } else if ev.0 == 1 {
            let l = &mut self.links[ev.1];
            if let Ok(Some(line)) = l.server_rx.try_next() {
                // start_replication reader: everything except "ok" is processed on the connecting node
                let message = line.trim().to_string();
                if message != "ok" { l.back += 1; process_request(&message, &self.nodes[l.from].dbs, &mut l.conn); }
            }
        } else if ev.0 == 3 {
            // the node's REAL supervisor coroutine takes one message (started on first use: it takes over the supervisor queue)
            if self.sups[ev.1].is_none() { let l = start_supervisor(&mut self.nodes[ev.1]); self.sups[ev.1] = Some(l); }
            poll_once(self.sups[ev.1].as_mut().unwrap());
        } else {
            poll_once(&mut self.nodes[ev.1].repl);
        }
    }
    /// run to quiescence; returns the number of steps, or None when the budget is exhausted (self-sustaining exchange)
    pub fn settle(&mut self, budget: usize, all_orders: bool) -> Option<usize> {
        let mut steps = 0;
        loop {
            let ev = self.enabled();
            if ev.len() == 0 { return Some(steps); }
            if steps >= budget { return None; }
            let pick = if all_orders { vsym::choice("deliver", ev.len()) } else { 0 };
            self.step(ev[pick]);
            steps += 1;
        }
    }
    pub fn inter_node_messages(&self) -> usize { let mut n = 0; let mut l = 0; while l < self.links.len() { n += self.links[l].forwarded + self.links[l].back; l += 1; } n }
}
