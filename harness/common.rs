//! helpers shared by all harnesses: build node state directly, drive text commands through process_request
use crate::bo::*;
use crate::process_request::process_request;
use futures::channel::mpsc::{channel, Receiver, Sender};
use vstd::collections::HashMap;
use vstd::sync::Arc;
use vstd::sync::atomic::Ordering;

pub struct Node { pub dbs: Arc<Databases>, pub sup_rx: Receiver<String>, pub rep_rx: Receiver<String> }

/// one node, role Primary, admin user "user"/"pwd"
pub fn mk_node(name: &str, process_id: u128, role: ClusterRole) -> Node {
    let (s1, sup_rx): (Sender<String>, Receiver<String>) = channel(1000);
    let (s2, rep_rx): (Sender<String>, Receiver<String>) = channel(1000);
    let dbs = Arc::new(Databases::new(String::from("user"), String::from("pwd"), String::from(name), String::from(name), s1, s2, HashMap::new(), process_id, true));
    dbs.node_state.swap(role as usize, Ordering::Relaxed);
    Node { dbs, sup_rx, rep_rx }
}
pub fn mk_primary() -> Node { mk_node("n1", 1u128, ClusterRole::Primary) }

pub fn new_client() -> (Client, Receiver<String>) { Client::new_empty_and_receiver() }

pub fn admin_client(dbs: &Arc<Databases>) -> (Client, Receiver<String>) {
    let (mut c, mut rx) = new_client();
    process_request("auth user pwd", dbs, &mut c);
    drain(&mut rx);
    (c, rx)
}
pub fn drain(rx: &mut Receiver<String>) -> Vec<String> {
    let mut v = Vec::new();
    while let Ok(Some(m)) = rx.try_next() { v.push(m); }
    v
}
pub fn is_ok(r: &Response) -> bool { match r { Response::Ok {} => true, _ => false } }
pub fn is_set(r: &Response) -> bool { match r { Response::Set { .. } => true, _ => false } }
pub fn is_error(r: &Response) -> bool { match r { Response::Error { .. } => true, _ => false } }
pub fn is_version_error(r: &Response) -> bool { match r { Response::VersionError { .. } => true, _ => false } }
/// response class: 0 Ok, 1 Set, 2 Value, 3 Error, 4 VersionError
pub fn resp_class(r: &Response) -> u8 { match r { Response::Ok {} => 0, Response::Set { .. } => 1, Response::Value { .. } => 2, Response::Error { .. } => 3, Response::VersionError { .. } => 4 } }

/// create database `name` (token "tok") with the given strategy word through the admin command
pub fn mk_db(dbs: &Arc<Databases>, name: &str, strategy: &str) {
    let (mut c, _rx) = admin_client(dbs);
    let cmd = ["create-db ", name, " tok ", strategy].concat();
    let r = process_request(&cmd, dbs, &mut c);
    vsym::assume(is_ok(&r));
}
/// a non-admin session that selected `name` with the database token
pub fn db_client(dbs: &Arc<Databases>, name: &str) -> (Client, Receiver<String>) {
    let (mut c, mut rx) = new_client();
    let cmd = ["use-db ", name, " tok"].concat();
    let r = process_request(&cmd, dbs, &mut c);
    vsym::assume(is_ok(&r));
    drain(&mut rx);
    (c, rx)
}
/// read (value, version, state) of a key straight from the store; None if not resident
pub fn peek(dbs: &Arc<Databases>, db: &str, key: &str) -> Option<Value> {
    let m = dbs.map.read().unwrap();
    let d = m.get(&String::from(db)).unwrap();
    d.get_value(String::from(key))
}
/// install a resident key directly (pre-state construction)
pub fn poke(dbs: &Arc<Databases>, db: &str, key: &str, value: &String, version: i32, state: ValueStatus, vaddr: u64, kaddr: u64) {
    let m = dbs.map.read().unwrap();
    let d = m.get(&String::from(db)).unwrap();
    d.set_value_version(&String::from(key), value, version, state, vaddr, kaddr, 7);
}
pub fn state_of(i: usize) -> ValueStatus { match i { 0 => ValueStatus::New, 1 => ValueStatus::Ok, 2 => ValueStatus::Updated, _ => ValueStatus::Deleted } }

/// partial-order reduction for thread harnesses: session locks are private to their client (checked), the database
/// table is only read during a concurrent phase (checked), the metrics averages are observed by no property (unchecked)
pub fn quiet_client(c: &Client) { c.selected_db.name.set_quiet(1); c.selected_db.user_name.set_quiet(1); c.cluster_member.set_quiet(1); }
pub fn quiet_node(dbs: &Arc<Databases>) { dbs.map.set_quiet(1); dbs.query_ema.set_quiet(2); dbs.replication_ema.set_quiet(2); }

/// dump of all observable node state (every key of every database, watcher counts, cluster members, queues, role)
pub fn digest(n: &mut Node) -> Vec<String> {
    let mut out: Vec<String> = Vec::new();
    {
        let m = n.dbs.map.read().unwrap();
        let names: Vec<String> = m.keys().map(|k| k.clone()).collect();   // map order (deterministic in the model); no sort: comparing symbolic strings lexicographically is what string solvers do worst
        for name in names.iter() {
            let db = m.get(name).unwrap();
            out.push(["db ", name, " strategy ", &db.metadata.consensus_strategy.to_string(), " id ", &db.metadata.id.to_string(), " conns ", &db.connections_count().to_string()].concat());
            let dm = db.map.read().unwrap();
            let keys: Vec<String> = dm.keys().map(|k| k.clone()).collect();
            for k in keys.iter() {
                let v = dm.get(k).unwrap();
                out.push(["  ", k, " = ", &v.value, " @", &v.version.to_string(), " s", &(v.state as usize).to_string()].concat());
            }
            let wm = db.watchers.map.read().unwrap();
            let wk: Vec<String> = wm.keys().map(|k| k.clone()).collect();
            for k in wk.iter() { out.push(["  watch ", k, " x", &wm.get(k).unwrap().len().to_string()].concat()); }
        }
    }
    {
        let cs = n.dbs.cluster_state.lock().unwrap();
        let members = cs.members.lock().unwrap();
        let names: Vec<String> = members.keys().map(|k| k.clone()).collect();
        for k in names.iter() { out.push(["member ", k, " role ", &(members.get(k).unwrap().role as usize).to_string()].concat()); }
    }
    out.push(["role ", &(n.dbs.get_role() as usize).to_string()].concat());
    out.push(["to_snapshot ", &n.dbs.to_snapshot.read().unwrap().len().to_string()].concat());
    out.push(["pending ", &n.dbs.pending_opps.read().unwrap().len().to_string()].concat());
    out.push(["replication-queue ", &n.rep_rx.len().to_string()].concat());
    out.push(["supervisor-queue ", &n.sup_rx.len().to_string()].concat());
    out
}
pub fn same_lines(a: &Vec<String>, b: &Vec<String>) -> bool {
    if a.len() != b.len() { return false; }
    let mut i = 0; let mut ok = true;
    while i < a.len() { if a[i] != b[i] { ok = false; } i += 1; }
    ok
}
/// `n` space-free symbolic tokens (<= len chars) appended to a command word
pub fn with_tokens(word: &str, n: usize, len: usize) -> String {
    let mut line = String::from(word);
    let mut a = 0;
    while a < n { let t = vsym::any_token("arg", len); line = [&line, " ", &t].concat(); a += 1; }
    line
}
pub fn resp_text(r: &Response) -> String {
    match r {
        Response::Ok {} => String::from("ok"),
        Response::Set { key, value } => ["set ", key, " ", value].concat(),
        Response::Value { key, value, version } => ["value ", key, " ", value, " ", &version.to_string()].concat(),
        Response::Error { msg } => ["error ", msg].concat(),
        Response::VersionError { msg, key, old_version, version, old_value: _, change: _, db: _, state: _ } => ["version-error ", msg, " ", key, " ", &old_version.to_string(), " ", &version.to_string()].concat(),
    }
}

/// restart: what `start_db` in src/bin/main.rs does before serving (key map, op-log validity decision, load of all databases)
pub fn restart_node(name: &str) -> Node {
    let (s1, sup_rx): (Sender<String>, Receiver<String>) = channel(1000);
    let (s2, rep_rx): (Sender<String>, Receiver<String>) = channel(1000);
    let keys_map = crate::disk_ops::load_keys_map_from_disk();
    let is_oplog_valid = crate::disk_ops::is_oplog_valid();
    if !is_oplog_valid { crate::disk_ops::Oplog::clean_op_log_metadata_files(); }
    let dbs = crate::db_ops::create_init_dbs(String::from("user"), String::from("pwd"), String::from(name), String::from(name), s1, s2, keys_map, is_oplog_valid);
    Databases::load_all_dbs(&dbs);
    Node { dbs, sup_rx, rep_rx }
}
