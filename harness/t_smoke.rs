//! engine self-tests (t_*): small harnesses with known verdicts
use crate::bo::*;
pub fn t_next_version() {
    let ch = Change { key: String::from("k"), value: String::from("v"), version: vsym::any_i32("ver"), opp_id: 1, resolve_conflict: vsym::any_bool("rc") };
    let old = Value { value: String::from("o"), version: vsym::any_i32("old"), opp_id: 0, state: ValueStatus::Ok, value_disk_addr: 0, key_disk_addr: 0 };
    vsym::assume(old.version >= 1 && ch.version >= -1 && old.version < 1000 && ch.version < 1000);
    let nv = ch.next_version(&old);
    if !ch.resolve_conflict && ch.version != -1 { vsym::check("explicit", nv == ch.version + 1); }
    if !ch.resolve_conflict && ch.version == -1 { vsym::check("auto", nv == old.version + 1); }
    vsym::cover("rc", ch.resolve_conflict);
}
pub fn t_metrics() {
    use crate::harness::common::*;
    let n = mk_primary();
    let (mut c, mut rx) = admin_client(&n.dbs);
    let r = crate::process_request::process_request("metrics-state", &n.dbs, &mut c);
    vsym::check("metrics.ok", match r { Response::Value { .. } => true, _ => false });
}
pub fn t_parse_word() {
    let words = Request::command_list();
    let mut w2 = words.clone(); w2.sort();
    let w = vsym::param("word", 28);
    vsym::tag(&w2[w]);
    let s = vsym::any_str("rest", vsym::param("len", 12));
    let line = [&w2[w], " ", &s].concat();
    let _ = Request::parse(&line);
}
