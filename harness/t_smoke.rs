//! engine self-tests (t_*): small harnesses with known verdicts
use crate::bo::*;
pub fn t_next_version() {
    let ch = Change { key: String::from("k"), value: String::from("v"), version: vsym::any_i32("ver"), opp_id: 1, resolve_conflict: vsym::any_bool("rc") };
    let old = Value { value: String::from("o"), version: vsym::any_i32("old"), opp_id: 0, state: ValueStatus::Ok, value_disk_addr: 0, key_disk_addr: 0 };
    vsym::assume(old.version >= 1 && ch.version >= -1 && old.version < 1000 && ch.version < 1000);
    let nv = ch.next_version(&old);
    if !ch.resolve_conflict && ch.version != -1 { vsym::check("explicit", nv == ch.version + 1); }
    if !ch.resolve_conflict && ch.version == -1 { vsym::check("auto", nv == old.version + 1); }
    vsym::cover("rc", ch.resolve_conflict);
}
