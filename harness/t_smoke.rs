//! engine self-tests (t_*): small harnesses with known verdicts
use crate::bo::*;
pub fn t_next_version() {
    let ch = Change { key: String::from("k"), value: String::from("v"), version: vsym::any_i32("ver"), opp_id: 1, resolve_conflict: vsym::any_bool("rc") };
    let old = Value { value: String::from("o"), version: vsym::any_i32("old"), opp_id: 0, state: ValueStatus::Ok, value_disk_addr: 0, key_disk_addr: 0 };
    vsym::assume(old.version >= 1 && ch.version >= -1 && old.version < 1000 && ch.version < 1000);
    let nv = ch.next_version(&old);
    if !ch.resolve_conflict && ch.version != -1 { vsym::check("explicit", nv == ch.version + 1); }
    if !ch.resolve_conflict && ch.version == -1 { vsym::check("auto", nv == old.version + 1); }
    vsym::cover("rc", ch.resolve_conflict);
}
pub fn t_metrics() {
    use crate::harness::common::*;
    let n = mk_primary();
    let (mut c, mut rx) = admin_client(&n.dbs);
    let r = crate::process_request::process_request("metrics-state", &n.dbs, &mut c);
    vsym::check("metrics.ok", match r { Response::Value { .. } => true, _ => false });
}
pub fn t_parse_word() {
    let words = Request::command_list();
    let mut w2 = words.clone(); w2.sort();
    let w = vsym::param("word", 28);
    vsym::tag(&w2[w]);
    let s = vsym::any_str("rest", vsym::param("len", 12));
    let line = [&w2[w], " ", &s].concat();
    let _ = Request::parse(&line);
}
pub fn t_cluster2() {
    use crate::harness::cluster::*; use crate::harness::common::*;
    let mut cl = mk_cluster(1);
    let (mut admin, mut arx) = admin_client(&cl.nodes[0].dbs);
    let r = crate::process_request::process_request("create-db d tok", &cl.nodes[0].dbs, &mut admin);
    vsym::check("create.ok", is_ok(&r));
    let st = cl.settle(60, false);
    vsym::check("settled", st.is_some());
    vsym::check("replicated-db", cl.nodes[1].dbs.has_db("d"));
    let (mut c, mut rx) = db_client(&cl.nodes[0].dbs, "d");
    crate::process_request::process_request("set k v1", &cl.nodes[0].dbs, &mut c);
    let st = cl.settle(60, false);
    vsym::check("settled2", st.is_some());
    vsym::check("replicated-key", match peek(&cl.nodes[1].dbs, "d", "k") { Some(v) => v.value == "v1", None => false });
    vsym::tag_i("msgs", cl.inter_node_messages() as i64);
}
