//! engine K: Kani twins of integer kernels (bit-precise, full machine range; concrete strings)
#![cfg(kani)]
use crate::bo::*;

/// C02 / C19: the version rule for a versioned write against a stored value that is not in conflict resolution
#[kani::proof]
fn k_next_version_rule() {
    let ver: i32 = kani::any(); let old: i32 = kani::any(); let rc: bool = kani::any();
    kani::assume(old >= 0 && old < i32::MAX && ver >= -1 && ver < i32::MAX);
    let ch = Change { key: String::new(), value: String::new(), version: ver, opp_id: 1, resolve_conflict: rc };
    let stored = Value { value: String::new(), version: old, opp_id: 0, state: ValueStatus::Ok, value_disk_addr: 0, key_disk_addr: 0 };
    let nv = ch.next_version(&stored);
    if rc { assert!(nv == old + 1); }
    else if ver == -1 { assert!(nv == old + 1); }
    else { assert!(nv == ver + 1); }
    // accepted exactly when the presented version is not older than the stored one (or auto / resolving)
    let accepted = !(nv <= old);
    assert!(accepted == (rc || ver == -1 || ver >= old));
}

/// C18: the retry rule of the s3_patition strategy (generic kernel, instantiated with a counting closure over u8) and the fold that
/// keeps the first error: at most count + 1 attempts, the first success wins and stops the retries, otherwise the last error comes back
#[kani::proof]
#[kani::unwind(6)]
fn k_retry_rule() {
    use crate::storage::s3_partition::{error_if_error, retry};
    let count: i32 = kani::any(); kani::assume(count >= 0 && count <= 3);
    let ok_at: u8 = kani::any();          // 0-based index of the attempt that succeeds; beyond count: never
    let mut attempts: u8 = 0;
    let r: Result<u8, u8> = retry(|| { let a = attempts; attempts += 1; if a == ok_at { Ok(a) } else { Err(a) } }, count);
    assert!((attempts as i32) <= count + 1);
    if (ok_at as i32) <= count { assert!(r == Ok(ok_at)); assert!(attempts == ok_at + 1); }
    else { assert!(r == Err(count as u8)); assert!((attempts as i32) == count + 1); }
    let a: Result<(), u8> = if kani::any() { Ok(()) } else { Err(kani::any()) };
    let b: Result<(), u8> = if kani::any() { Ok(()) } else { Err(kani::any()) };
    let e = error_if_error(a, b);
    match (a, b) { (Err(x), _) => assert!(e == Err(x)), (Ok(()), y) => assert!(e == y) }
}

/// C06 / C12: the tags the snapshot and op-log formats store as integers survive the round trip through their byte encoding, and every
/// possible stored integer decodes to some tag without panicking (a damaged file cannot crash the loader through these conversions)
#[kani::proof]
fn k_disk_tag_round_trips() {
    // ValueStatus: 4 bytes little endian in the values file
    let st = match kani::any::<u8>() % 4 { 0 => ValueStatus::Ok, 1 => ValueStatus::Deleted, 2 => ValueStatus::Updated, _ => ValueStatus::New };
    let back = ValueStatus::from(i32::from_le_bytes(st.to_le_bytes()));
    assert!(back == st);
    let any_stored: i32 = kani::any();
    let _ = ValueStatus::from(any_stored);
    // ReplicateOpp: one byte per op-log record
    let op = match kani::any::<u8>() % 4 { 0 => ReplicateOpp::Update, 1 => ReplicateOpp::Remove, 2 => ReplicateOpp::CreateDb, _ => ReplicateOpp::Snapshot };
    assert!(ReplicateOpp::from(op.to_u8()).to_u8() == op.to_u8());
    let any_byte: u8 = kani::any();
    assert!(ReplicateOpp::from(any_byte).to_u8() <= 3);
    // ConsensuStrategy: stored as an integer in the database metadata file
    let any_strategy: i32 = kani::any();
    let s = ConsensuStrategy::from(any_strategy);
    assert!(match s { ConsensuStrategy::Arbiter => any_strategy == 2, ConsensuStrategy::Newer => any_strategy == 1, ConsensuStrategy::None => any_strategy != 1 && any_strategy != 2 });
}
