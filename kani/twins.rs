//! engine K: Kani twins of integer kernels (bit-precise, full machine range; concrete strings)
#![cfg(kani)]
use crate::bo::*;

/// C02 / C19: the version rule for a versioned write against a stored value that is not in conflict resolution
#[kani::proof]
fn k_next_version_rule() {
    let ver: i32 = kani::any(); let old: i32 = kani::any(); let rc: bool = kani::any();
    kani::assume(old >= 0 && old < i32::MAX && ver >= -1 && ver < i32::MAX);
    let ch = Change { key: String::new(), value: String::new(), version: ver, opp_id: 1, resolve_conflict: rc };
    let stored = Value { value: String::new(), version: old, opp_id: 0, state: ValueStatus::Ok, value_disk_addr: 0, key_disk_addr: 0 };
    let nv = ch.next_version(&stored);
    if rc { assert!(nv == old + 1); }
    else if ver == -1 { assert!(nv == old + 1); }
    else { assert!(nv == ver + 1); }
    // accepted exactly when the presented version is not older than the stored one (or auto / resolving)
    let accepted = !(nv <= old);
    assert!(accepted == (rc || ver == -1 || ver >= old));
}
