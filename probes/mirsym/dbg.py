import sys; sys.argv=['run.py','m_pattern']
sys.path.insert(0,'/tmp/probe/mirsym')
exec(open('/tmp/probe/mirsym/run.py').read().split("entry = sys.argv[1]")[0])
ip.decisions=[]; ip.dpos=0; ip.nsym=0; ip.inputs=[]; ip.unknowns=0; ip.worklist=[]; ip.pathcache={}
try:
    r = ip.call_fn('m_dbg2', [])
except Exception as e:
    import traceback; traceback.print_exc(); r = None
def show(v, d=0):
    if isinstance(v, mirsym.Agg): return "%s::%s(%s)" % (v.ty, v.variant, ", ".join(show(c.v) for c in v.fields))
    if isinstance(v, list): return "[" + ", ".join(show(c.v) for c in v) + "]"
    return repr(v)
print(show(r))
