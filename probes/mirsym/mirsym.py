"""prototype MIR symbolic executor (spike): re-execution based path exploration, cvc5 incremental back end"""
import re, subprocess, sys, time
from mirparse import *

# ---------------- solver ------------------------------------------------
class Solver:
    def __init__(self, cmd=("cvc5", "--incremental", "--lang", "smt2", "--strings-exp", "--produce-models", "--tlimit-per=3000")):
        self.log = []
        self.p = subprocess.Popen(cmd, stdin=subprocess.PIPE, stdout=subprocess.PIPE, stderr=subprocess.STDOUT, text=True, bufsize=1)
        self.send("(set-logic ALL)")
        self.decls = set(); self.queries = 0; self.time = 0.0  # QLOG
    def send(self, s):
        self.log.append(s)
        self.p.stdin.write(s + "\n"); self.p.stdin.flush()
    def ask(self, s):
        t = time.time(); self.send(s); r = self.p.stdout.readline().strip(); self.time += time.time() - t
        return r
    def declare(self, name, sort):
        if name not in self.decls:
            self.decls.add(name); self.send("(declare-fun %s () %s)" % (name, sort))
    def push(self): self.send("(push 1)")
    def pop(self): self.send("(pop 1)")
    def add(self, t): self.send("(assert %s)" % t)
    def check(self):
        self.queries += 1
        t0 = time.time(); r = self.ask("(check-sat)")
        if time.time() - t0 > 1.0:
            self.slow = getattr(self, 'slow', 0) + 1
            open('/tmp/probe/slowq_%d.smt2' % self.slow, 'w').write('\n'.join(self.log)); print('SLOW', r, round(time.time()-t0,1), flush=True)
        if r.startswith("(error"): raise Exception("solver error " + r)
        return r
    def value(self, names):
        self.send("(get-value (%s))" % " ".join(names))
        out = ""; depth = 0
        while True:
            ln = self.p.stdout.readline(); out += ln
            depth += ln.count('(') - ln.count(')')
            if depth <= 0: break
        return out.strip()

# ---------------- values ------------------------------------------------
class Term:  # symbolic SMT term
    __slots__ = ('s', 'sort')
    def __init__(self, s, sort): self.s = s; self.sort = sort
    def __repr__(self): return "T(%s)" % self.s
def smt_str(v):
    if isinstance(v, Term): return v.s
    out = []
    for ch in v:
        o = ord(ch)
        if ch == '"': out.append('""')
        elif 32 <= o < 127 and ch != '\\': out.append(ch)
        else: out.append("\\u{%x}" % o)
    return '"' + ''.join(out) + '"'
def smt_int(v):
    if isinstance(v, Term): return v.s
    return str(v) if v >= 0 else "(- %d)" % (-v)
def smt_bool(v):
    if isinstance(v, Term): return v.s
    return "true" if v else "false"

class Cell:
    __slots__ = ('v',)
    def __init__(self, v=None): self.v = v
class Ref:
    __slots__ = ('cell',)
    def __init__(self, cell): self.cell = cell
class Agg:
    """struct / enum / tuple value: ty = type path (str), variant = variant name or None, fields = list[Cell], names = field names or None"""
    __slots__ = ('ty', 'variant', 'fields', 'names')
    def __init__(self, ty, variant, fields, names=None): self.ty = ty; self.variant = variant; self.fields = fields; self.names = names
    def __repr__(self): return "%s::%s(%s)" % (self.ty, self.variant, ", ".join(repr(c.v) for c in self.fields))
class FnPtr:
    def __init__(self, name): self.name = name
class Closure:
    def __init__(self, name, upvars): self.name = name; self.fields = [Cell(u) for u in upvars]
class Unit: pass
UNIT = Unit()

class Panic(Exception): pass
class Infeasible(Exception): pass
class Unsupported(Exception): pass

INT_RANGES = {'i8': (-2**7, 2**7-1), 'i16': (-2**15, 2**15-1), 'i32': (-2**31, 2**31-1), 'i64': (-2**63, 2**63-1), 'i128': (-2**127, 2**127-1), 'isize': (-2**63, 2**63-1),
              'u8': (0, 2**8-1), 'u16': (0, 2**16-1), 'u32': (0, 2**32-1), 'u64': (0, 2**64-1), 'u128': (0, 2**128-1), 'usize': (0, 2**64-1)}

def deep_copy_val(v):
    if isinstance(v, Agg) and v.ty == 'Arc': return v
    if isinstance(v, Agg): return Agg(v.ty, v.variant, [Cell(deep_copy_val(c.v)) for c in v.fields], v.names)
    if isinstance(v, list): return [Cell(deep_copy_val(c.v)) for c in v]
    return v

# ---------------- interpreter -------------------------------------------
class Frame:
    def __init__(self, fn, args):
        self.fn = fn; self.locals = {}; self.bb = 0; self.pc = 0; self.dest = None; self.retbb = None
        for i, a in enumerate(args): self.locals[i + 1] = Cell(a)
    def cell(self, i):
        c = self.locals.get(i)
        if c is None: c = self.locals[i] = Cell(None)
        return c

class Interp:
    def __init__(self, fns, layouts):
        self.fns = fns; self.layouts = layouts
        from solver2 import Solver2
        self.solver = Solver2()
        self.models = {}
        self.parsed = {}
        self.callmap = {}
        self.stats = {'paths': 0, 'steps': 0, 'checks': 0, 'violations': []}
        self.simple_consts = {}
        self.closure_fns = {}
        for n, f in fns.items():
            if '{closure#' in n and f.params:
                m = re.search(r'\{closure@[^}]*\}', f.params[0])
                if m: self.closure_fns[m.group(0)] = n
        self.build_callmap()

    # --- name resolution: def names ("bo::<impl at src/bo.rs:493:1: 493:14>::set_value") -> call names
    def build_callmap(self):
        for name in self.fns:
            self.callmap[strip_generics(name)] = name
            if '<' not in name and '{' not in name:
                segs = name.split('::')
                for k in range(1, len(segs)): self.callmap.setdefault('::'.join(segs[k:]), name)
            m = re.search(r'<impl at ([^>]+?):(\d+):(\d+): \d+:\d+>', name)
            if m:
                hdr = impl_header(m.group(1), int(m.group(2)), int(m.group(3)), name.split('::')[0])
                if hdr:
                    trait, ty = hdr
                    prefix = name[:m.start()]; rest = name[m.end():]
                    if trait: key = "<%s as %s>%s" % (last_seg(ty), trait, rest)
                    else: key = "%s%s" % (last_seg(ty), rest)
                    self.callmap[key] = name

    def resolve(self, callee):
        c = strip_generics(callee)
        if c in self.callmap: return self.callmap[c]
        c = re.sub(r'<impl ([^<>]+)>', lambda m: last_seg(m.group(1)), c)
        # "<bo::Value as Clone>::clone" -> "<Value as Clone>::clone" ; "bo::Database::set_value" -> "Database::set_value"
        m = re.match(r'<(.+) as (.+)>(::.+)$', c)
        if m:
            key = "<%s as %s>%s" % (last_seg(m.group(1)), last_seg_keep_generics(m.group(2)), m.group(3))
            if key in self.callmap: return self.callmap[key]
        parts = c.split('::')
        for k in range(len(parts)):
            key = '::'.join(parts[k:])
            if key in self.callmap: return self.callmap[key]
        return None

    # --- symbolic inputs
    def fresh(self, sort, hint):
        n = "%s_%d" % (hint, self.nsym); self.nsym += 1
        self.solver.declare(n, sort); self.inputs.append((n, sort))
        return Term(n, sort)

    # --- branching by re-execution
    def branch(self, cond):
        """cond: python bool or Term(Bool). returns python bool for this path"""
        if not isinstance(cond, Term): return bool(cond)
        if self.dpos < len(self.decisions):
            d = self.decisions[self.dpos]; self.dpos += 1
            self.solver.add(cond.s if d else "(not %s)" % cond.s)
            return d
        # new decision point: check both sides
        s = self.solver
        s.push(); s.add(cond.s); rt = s.check(); s.pop()
        s.push(); s.add("(not %s)" % cond.s); rf = s.check(); s.pop()
        if rt == 'unknown' or rf == 'unknown': self.unknowns += 1
        can_t = rt != 'unsat'; can_f = rf != 'unsat'
        if can_t and can_f:
            self.worklist.append(self.decisions[:self.dpos] + [False])
            self.decisions = self.decisions[:self.dpos] + [True]; self.dpos += 1
            s.add(cond.s); return True
        if can_t:
            self.decisions = self.decisions[:self.dpos] + [True]; self.dpos += 1
            return True
        if can_f:
            self.decisions = self.decisions[:self.dpos] + [False]; self.dpos += 1
            return False
        raise Infeasible()

    def check(self, cond, what):
        """assert-like check: report violation if cond can be false under the path condition"""
        self.stats['checks'] += 1
        if not isinstance(cond, Term):
            if not cond: self.violation(what, None)
            return
        s = self.solver
        s.push(); s.add("(not %s)" % cond.s); r = s.check()
        if r != 'unsat':
            model = s.value([n for n, _ in self.inputs]) if r == 'sat' and self.inputs else r
            s.pop(); self.violation(what, model)
        else:
            s.pop()
        s.add(cond.s)

    def violation(self, what, model):
        self.stats['violations'].append((what, model, list(self.decisions[:self.dpos])))

    # --- running
    def run(self, entry, max_paths=10000):
        self.worklist = [[]]
        while self.worklist and self.stats['paths'] < max_paths:
            self.decisions = self.worklist.pop(); self.dpos = 0; self.nsym = 0; self.inputs = []; self.unknowns = 0
            self.solver.push(); self.solver.decls = set(); self.pathcache = {}
            if hasattr(self, 'sched'): self.sched.reset()
            try:
                self.call_fn(entry, [])
                if hasattr(self, 'sched') and self.sched.abort: raise self.sched.abort
                self.stats['paths'] += 1
            except Infeasible:
                import traceback; self.last_inf = traceback.format_exc()
                self.stats.setdefault('infeasible',0); self.stats['infeasible']+=1
            except Unsupported as e:
                self.stats.setdefault('unsupported', {}); self.stats['unsupported'][str(e)] = self.stats['unsupported'].get(str(e), 0) + 1
            except Panic as e:
                self.stats['paths'] += 1
                model = self.solver.value([n for n, _ in self.inputs]) if self.inputs and self.solver.check() == 'sat' else None
                self.violation("panic: %s" % e, model)
            self.solver.pop()
        return self.stats

    trace = False; depth = 0
    def call_fn(self, name, args):
        fn = self.fns[name]
        saved_crate = getattr(self, 'cur_crate', ''); self.cur_crate = name.split('::')[0] if name.split('::')[0] in ('vstd', 'futures', 'atomic_float') else 'nsym'
        try:
            return self.call_fn_inner(fn, name, args)
        finally:
            self.cur_crate = saved_crate

    def call_fn_inner(self, fn, name, args):
        fr = Frame(fn, args)
        bb = 0
        while True:
            if self.trace: print('  '*self.depth, name.split('::')[-1], 'bb%d'%bb)
            parts = self.get_block(fn, bb)
            stmts, term = parts
            for st in stmts:
                self.stats['steps'] += 1
                if st is None: continue
                if st[0] == 'assign':
                    v = self.rvalue(fr, st[2]); self.place_cell(fr, st[1], write=True).v = v
                elif st[0] == 'setdiscr':
                    raise Unsupported("setdiscr")
            t = term
            k = t[0]
            if k == 'goto': bb = t[1]; continue
            elif k == 'return':
                c = fr.locals.get(0); return c.v if c and c.v is not None else UNIT
            elif k == 'switch':
                v = self.operand(fr, t[1])
                bb = self.switch(v, t[2], t[3])
            elif k == 'drop':
                self.drop_value(self.place_cell(fr, t[1]).v); bb = t[2]
            elif k == 'assert':
                c = self.operand(fr, t[1])
                ok = self.branch(c if t[2] else self.bnot(c))
                if not ok: raise Panic(t[3])
                bb = t[4]
            elif k == 'call':
                args_v = [self.operand(fr, a) for a in t[3]]
                callee = t[2]
                if callee.startswith(('copy ', 'move ')):
                    fp = self.operand(fr, parse_operand(callee))
                    if isinstance(fp, Closure):
                        r = self.call_fn(self.closure_fns[fp.name], [Ref(Cell(fp))] + args_v)
                        self.place_cell(fr, t[1], write=True).v = r; bb = t[4]; continue
                    callee = fp.name
                r = self.do_call(callee, args_v)
                if t[4] is None: raise Panic("diverging call returned: " + t[2])
                self.place_cell(fr, t[1], write=True).v = r
                bb = t[4]
            elif k == 'unreachable': raise Unsupported("reached unreachable in " + name)
            else: raise Unsupported("term " + str(t))

    def drop_value(self, v):
        if isinstance(v, Agg):
            if v.ty in ('Arc', 'Vec'): return   # spike: shared / element drops ignored
            d = self.resolve("<%s as Drop>::drop" % v.ty)
            if d is not None: self.call_fn(d, [Ref(Cell(v))])
            for c in v.fields: self.drop_value(c.v)

    def get_block(self, fn, bb):
        key = (fn.name, bb)
        p = self.parsed.get(key)
        if p is None:
            parts = fn.blocks[bb]
            stmts = [parse_stmt(x) for x in parts[:-1]]
            p = self.parsed[key] = (stmts, parse_term(parts[-1]))
        return p

    def switch(self, v, targets, other):
        if isinstance(v, Term):
            for val, bb in targets:
                if v.sort == 'Bool':
                    c = v if val != 0 else Term("(not %s)" % v.s, 'Bool')
                else:
                    c = Term("(= %s %s)" % (v.s, smt_int(val)), 'Bool')
                if self.branch(c): return bb
            if other is None: raise Infeasible()
            return other
        iv = int(v) if not isinstance(v, str) else ord(v)
        for val, bb in targets:
            if iv == val: return bb
        return other

    def bnot(self, c):
        if isinstance(c, Term): return Term("(not %s)" % c.s, 'Bool')
        return not c

    # --- places
    def place_cell(self, fr, place, write=False):
        base, proj = place
        cell = fr.cell(base)
        for p in proj:
            if p[0] == 'deref':
                r = cell.v
                if isinstance(r, Ref): cell = r.cell
                else: raise Unsupported("deref of %r" % (r,))
            elif p[0] == 'field':
                a = cell.v
                if a is None and write:
                    a = cell.v = Agg('?', None, [])
                if isinstance(a, (Agg, Closure)):
                    while len(a.fields) <= p[1]: a.fields.append(Cell(None))
                    cell = a.fields[p[1]]
                else: raise Unsupported("field of %r" % (a,))
            elif p[0] == 'downcast':
                pass
            elif p[0] == 'index':
                idx = fr.cell(p[1]).v; lst = cell.v
                if isinstance(lst, Agg) and lst.ty == 'Vec': lst = lst.fields[0].v
                if isinstance(idx, Term): raise Unsupported('symbolic index')
                if idx >= len(lst): raise Panic('index out of bounds: %d >= %d' % (idx, len(lst)))
                cell = lst[idx]
            elif p[0] == 'cindex':
                cell = cell.v[p[1]]
            else: raise Unsupported("proj " + str(p))
        return cell

    def operand(self, fr, op):
        if op[0] == 'copy': return deep_copy_val(self.place_cell(fr, op[1]).v)
        if op[0] == 'move': return self.place_cell(fr, op[1]).v
        if op[0] == 'const': return self.const(op[1])
        if op[0] == 'fnitem': return FnPtr(op[1])
        raise Unsupported(str(op))

    def const(self, s):
        if s == 'true': return True
        if s == 'false': return False
        if s == '()': return UNIT
        if re.fullmatch(r'\{alloc\d+: &[A-Z_0-9]+\}', s): return UNIT
        m = re.fullmatch(r'\{(alloc\d+): \*(?:mut|const) .*\}', s)
        if m:
            name = self.alloc_static[(self.cur_crate, m.group(1))]
            key = ('static', name)
            if key not in self.pathcache:
                self.pathcache[key] = Cell(None)
                self.pathcache[key].v = self.call_fn(name, [])
            return Ref(self.pathcache[key])
        if s.startswith('ZeroSized: {closure@'): return Closure(s[len('ZeroSized: '):], [])
        m = re.fullmatch(r'(-?\d+)_([iu](?:\d+|size))', s)
        if m: return int(m.group(1))
        m = re.fullmatch(r'(-?[\d.]+(?:[eE][-+]?\d+)?)f(32|64)', s)
        if m: return float(m.group(1))
        if s.startswith('b"'): return s
        mm = re.fullmatch(r'core::num::<impl ([iu](?:\d+|size))>::(MAX|MIN)', s)
        if mm: return INT_RANGES[mm.group(1)][1 if mm.group(2) == 'MAX' else 0]
        if s.startswith('"'): return eval(s.replace('\\u{', '\\u{').replace('\n', '\\n')) if '\\u{' not in s else s[1:-1]
        if s.startswith("'"): return eval(s)
        sc = self.simple_consts.get(s) or self.simple_consts.get(s.split('::')[-1])
        if sc is not None: return self.const(sc)
        if s in self.fns:  # named const
            return self.call_fn(s, [])
        r = self.resolve(s)
        if r and getattr(self.fns[r], 'is_const', False): return self.call_fn(r, [])
        if r: return FnPtr(s)
        if re.fullmatch(r'[\w:]+', s) and s.split('::')[-1][:1].isupper():
            ty, variant = self.split_variant(s)
            return Agg(ty, variant, [])
        raise Unsupported("const " + s)

    def rvalue(self, fr, rv):
        k = rv[0]
        if k == 'use': return self.operand(fr, rv[1])
        if k == 'ref': return Ref(self.place_cell(fr, rv[1]))
        if k == 'binop': return self.binop(fr, rv[1], self.operand(fr, rv[2]), self.operand(fr, rv[3]), rv)
        if k == 'unop':
            v = self.operand(fr, rv[2])
            if rv[1] == 'Not': return self.bnot(v) if isinstance(v, (bool, Term)) and (not isinstance(v, Term) or v.sort == 'Bool') else ~v
            if rv[1] == 'PtrMetadata':
                w = v
                while isinstance(w, Ref): w = w.cell.v
                if isinstance(w, Agg) and w.ty == 'Vec': w = w.fields[0].v
                if isinstance(w, list): return len(w)
                if isinstance(w, str): return len(w.encode())
                raise Unsupported('PtrMetadata of %r' % (w,))
            if rv[1] == 'Neg': return Term("(- %s)" % v.s, 'Int') if isinstance(v, Term) else -v
        if k == 'discr':
            a = self.place_cell(fr, rv[1]).v
            return self.discr(a)
        if k == 'tuple': return Agg('tuple', None, [Cell(self.operand(fr, o)) for o in rv[1]])
        if k == 'adt':
            path, kind, fields = rv[1], rv[2], rv[3]
            ty, variant = self.split_variant(path)
            if kind == 'named':
                names = [n for n, _ in fields]
                order = self.layouts.get((ty, variant))
                cells = [Cell(self.operand(fr, o)) for _, o in fields]
                if order:
                    by = dict(zip(names, cells)); cells = [by[n] for n in order]; names = order
                return Agg(ty, variant, cells, names)
            return Agg(ty, variant, [Cell(self.operand(fr, o)) for o in fields])
        if k == 'array': return [Cell(self.operand(fr, o)) for o in rv[1]]
        if k == 'repeat':
            v = self.operand(fr, rv[1]); n = int(re.match(r'(?:const )?(\d+)', rv[2]).group(1)) if re.match(r'(?:const )?(\d+)', rv[2]) else self.const(rv[2].replace('const ', ''))
            return [Cell(deep_copy_val(v)) for _ in range(n)]
        if k == 'len':
            v = self.place_cell(fr, rv[1]).v
            return len(v if isinstance(v, list) else v.fields[0].v)
        if k == 'fnptr': return FnPtr(rv[1])
        if k == 'cast':
            v = self.operand(fr, rv[1])
            if rv[3] == 'IntToFloat' and not isinstance(v, Term): return float(v)
            if rv[3] == 'FloatToInt' and not isinstance(v, Term): return int(v)
            return v   # spike: IntToInt casts treated as identity (TODO wrap)
        if k == 'closure': return Closure(rv[1], [self.operand(fr, o) for _, o in rv[2]])
        raise Unsupported("rvalue " + str(rv))

    def split_variant(self, path):
        p = strip_generics(path)
        segs = p.split('::')
        # enum variant if the last segment is a known variant of the type before it
        if len(segs) >= 2 and ('::'.join(segs[:-1]).split('::')[-1], segs[-1]) in self.layouts.get('__variants__', set()):
            return (segs[-2], segs[-1])
        if segs[0] in ('Option', 'std::option::Option') or segs[-2:-1] == ['Option']: return ('Option', segs[-1])
        if segs[-2:-1] == ['Result']: return ('Result', segs[-1])
        if len(segs) == 1:
            owners = [t for (t, v) in self.layouts.get('__variants__', set()) if v == segs[0]]
            if len(owners) == 1: return (owners[0], segs[0])
        return (segs[-1], None)

    VARIANT_IDX = {('Option', 'None'): 0, ('Option', 'Some'): 1, ('Result', 'Ok'): 0, ('Result', 'Err'): 1}
    def discr(self, a):
        if isinstance(a, Agg):
            key = (a.ty, a.variant)
            if key in self.VARIANT_IDX: return self.VARIANT_IDX[key]
            vs = self.layouts.get(('__enum__', a.ty))
            if vs: return vs.index(a.variant)
        raise Unsupported("discr of %r" % (a,))

    def binop(self, fr, op, a, b, rv):
        sym = isinstance(a, Term) or isinstance(b, Term)
        if op in ('AddWithOverflow', 'SubWithOverflow', 'MulWithOverflow'):
            ty = self.const_type(rv[2]) or self.const_type(rv[3]) or 'i32'
            lo, hi = INT_RANGES[ty]
            o = {'Add': '+', 'Sub': '-', 'Mul': '*'}[op[:3]]
            if not sym:
                r = {'+': a + b, '-': a - b, '*': a * b}[o]
                return Agg('tuple', None, [Cell(r), Cell(not (lo <= r <= hi))])
            r = Term("(%s %s %s)" % (o, smt_int(a), smt_int(b)), 'Int')
            ov = Term("(or (< %s %s) (> %s %s))" % (r.s, smt_int(lo), r.s, smt_int(hi)), 'Bool')
            return Agg('tuple', None, [Cell(r), Cell(ov)])
        cmpops = {'Eq': '=', 'Lt': '<', 'Le': '<=', 'Gt': '>', 'Ge': '>=', 'Ne': 'distinct'}
        if op in cmpops:
            if not sym:
                return {'Eq': a == b, 'Ne': a != b, 'Lt': a < b, 'Le': a <= b, 'Gt': a > b, 'Ge': a >= b}[op]
            if isinstance(a, str) or (isinstance(a, Term) and a.sort == 'String'): return Term("(%s %s %s)" % (cmpops[op], smt_str(a), smt_str(b)), 'Bool')
            if isinstance(a, bool) or (isinstance(a, Term) and a.sort == 'Bool'): return Term("(%s %s %s)" % (cmpops[op], smt_bool(a), smt_bool(b)), 'Bool')
            return Term("(%s %s %s)" % (cmpops[op], smt_int(a), smt_int(b)), 'Bool')
        ar = {'Add': '+', 'Sub': '-', 'Mul': '*'}
        if op in ar:
            if not sym: return {'Add': a + b, 'Sub': a - b, 'Mul': a * b}[op]
            return Term("(%s %s %s)" % (ar[op], smt_int(a), smt_int(b)), 'Int')
        if op in ('Div', 'Rem') and not sym:
            if isinstance(a, float) or isinstance(b, float): return a / b if op == 'Div' else a % b
            if b == 0: raise Panic('division by zero')
            q = abs(a) // abs(b) * (1 if (a >= 0) == (b >= 0) else -1)
            return q if op == 'Div' else a - q * b
        if op in ('BitAnd', 'BitOr', 'BitXor') and not sym:
            if isinstance(a, bool): return {'BitAnd': a and b, 'BitOr': a or b, 'BitXor': a != b}[op]
            return {'BitAnd': a & b, 'BitOr': a | b, 'BitXor': a ^ b}[op]
        raise Unsupported("binop " + op)

    def const_type(self, op):
        if op[0] == 'const':
            m = re.fullmatch(r'-?\d+_([iu](?:\d+|size))', op[1])
            if m: return m.group(1)
        return None

    # --- calls
    def call_value(self, f, args):
        if isinstance(f, Closure): return self.call_fn(self.closure_fns[f.name], [f] + args) if not self.fns[self.closure_fns[f.name]].params[0].strip().startswith('_1: &') else self.call_fn(self.closure_fns[f.name], [Ref(Cell(f))] + args)
        return self.do_call(f.name, args)

    calltrace = False  # CALLTRACE
    def do_call(self, callee, args):
        if self.calltrace: print('CALL', callee[:150], [repr(x)[:60] for x in args])
        base = strip_generics(callee)
        m = self.models.get(base)
        if m is None:
            # generic model keys: method name patterns
            for pat, fnm in self.pattern_models:
                if pat.search(base): m = fnm; break
        if m is not None: return m(self, callee, args)
        r = self.resolve(callee)
        if r is not None: return self.call_fn(r, args)
        m2 = re.match(r'<([A-Z]\w?) as (.+)>(::\w+)$', base)  # DYNDISPATCH
        if m2 and args:
            v = args[0]
            while isinstance(v, Ref): v = v.cell.v
            if isinstance(v, Agg):
                r = self.resolve('<%s as %s>%s' % (v.ty, m2.group(2), m2.group(3)))
                if r is not None: return self.call_fn(r, args)
        raise Unsupported("call " + callee)

def strip_generics(s):
    out = []; depth = 0; i = 0
    # remove "::<...>" groups, keep "<T as Trait>" prefix groups
    while i < len(s):
        if s.startswith('::<', i) and not s.startswith('::<impl', i):
            d = 0; j = i + 2
            while j < len(s):
                if s[j] == '<': d += 1
                elif s[j] == '>' and s[j-1] not in '-=':
                    d -= 1
                    if d == 0: break
                j += 1
            i = j + 1; continue
        out.append(s[i]); i += 1
    return ''.join(out)

def last_seg(t):
    t = t.strip()
    t = re.sub(r"^&(?:'\w+ )?(?:mut )?", '', t)
    depth = 0; cut = 0
    for i, c in enumerate(t):
        if c == '<': depth += 1
        elif c == '>': depth -= 1
        elif c == ':' and depth == 0 and t[i:i+2] == '::': cut = i + 2
    t = t[cut:]
    return re.sub(r'<.*>$', '', t)
def last_seg_keep_generics(t):
    t = t.strip(); depth = 0; cut = 0
    for i, c in enumerate(t):
        if c == '<': depth += 1
        elif c == '>': depth -= 1
        elif c == ':' and depth == 0 and t[i:i+2] == '::': cut = i + 2
    return t[cut:]

_SRC_CACHE = {}
SRC_ROOTS = []
def impl_header(path, line, col=1, crate=''):
    import os
    roots = [r for r in SRC_ROOTS if r.rstrip('/').endswith('/' + crate)] or [SRC_ROOTS[0]]
    for root in roots:
        fp = os.path.join(root, path)
        if os.path.exists(fp):
            if fp not in _SRC_CACHE: _SRC_CACHE[fp] = open(fp).read().split('\n')
            if line - 1 >= len(_SRC_CACHE[fp]): return None
            ln = _SRC_CACHE[fp][line - 1]
            if ln.strip().startswith('#[derive'):
                mt = re.match(r'\w+', ln[col-1:])
                k = line
                while k < len(_SRC_CACHE[fp]) and not re.match(r'\s*(pub(\([a-z]+\))? )?(struct|enum) (\w+)', _SRC_CACHE[fp][k]): k += 1
                if k >= len(_SRC_CACHE[fp]): return None
                mty = re.match(r'\s*(pub(\([a-z]+\))? )?(struct|enum) (\w+)', _SRC_CACHE[fp][k])
                return (mt.group(0), mty.group(4))
            ln = ln.split('{')[0]
            m = re.match(r'\s*(?:unsafe )?impl(?:<[^>]*>)?\s+(.+?)\s+for\s+(.+?)\s*(?:where.*)?$', ln)
            if m: return (last_seg_keep_generics(m.group(1)), m.group(2))
            m = re.match(r'\s*impl(?:<[^>]*>)?\s+(.+?)\s*(?:where.*)?$', ln)
            if m: return (None, m.group(1))
    return None
