import sys, re, time, os
import mirsym
from mirsym import *
import models
mirsym.SRC_ROOTS[:] = ['/tmp/probe/slice/nsym', '/tmp/probe/slice/shims/vstd', '/tmp/probe/slice/shims/futures', '/tmp/probe/slice/shims/atomic_float']
text = open('/tmp/probe/slice.mir').read()
fns = parse_mir(text)
for crate in ('vstd', 'futures', 'atomic_float'):
    v = parse_mir(open('/tmp/probe/%s.mir' % crate).read())
    for k, f in v.items():
        f.name = crate + '::' + k; fns[crate + '::' + k] = f
# layouts from source
layouts = {'__variants__': set()}
def scan_src(root):
    for dp, dn, fnames in os.walk(root):
        for fn_ in fnames:
            if not fn_.endswith('.rs'): continue
            src = open(os.path.join(dp, fn_)).read()
            src = re.sub(r'//[^\n]*', '', src)
            for m in re.finditer(r'pub struct (\w+)(?:<[^>]*>)?\s*\{([^}]*)\}', src):
                fields = [x.split(':')[0].strip().replace('pub ', '') for x in split_top(m.group(2)) if ':' in x]
                layouts[(m.group(1), None)] = fields
            for m in re.finditer(r'pub enum (\w+)\s*\{', src):
                e = match_close(src, m.end() - 1); body = src[m.end():e]
                vs = []
                for part in split_top(body):
                    part = re.sub(r'///.*|//.*', '', part).strip()
                    if not part: continue
                    mm = re.match(r'(\w+)\s*(\{(.*)\}|\((.*)\))?', part, re.S)
                    vs.append(mm.group(1)); layouts['__variants__'].add((m.group(1), mm.group(1)))
                    if mm.group(3) is not None:
                        layouts[(m.group(1), mm.group(1))] = [x.split(':')[0].strip() for x in split_top(mm.group(3)) if ':' in x]
                layouts[('__enum__', m.group(1))] = vs
scan_src('/tmp/probe/slice/nsym/src')
for ty, vs in (('SeekFrom', ['Start', 'End', 'Current']), ('ControlFlow', ['Continue', 'Break']), ('Ordering', ['Less', 'Equal', 'Greater']), ('Poll', ['Ready', 'Pending'])):
    layouts[('__enum__', ty)] = vs
    for v_ in vs: layouts['__variants__'].add((ty, v_))
ip = Interp(fns, layouts)
ip.pathcache = {}
for m in re.finditer(r'^const (\S+): [^=]+ = const (.+);$', text, re.M):
    ip.simple_consts[m.group(1)] = m.group(2); ip.simple_consts[m.group(1).split('::')[-1]] = m.group(2)
def static_owner(n):
    m = re.search(r'<impl at [^>]+?:(\d+):\d+: \d+:\d+>', n)
    # find the lazy_static name by reading which static's deref refers... spike: match by order in source
    return None
# spike: map static names via MIR text: "<NAME as Deref>::deref::__static_ref_initialize" appears in callers
owner = {}
cur_static = None
for n, f in fns.items():
    base = n.split('#')[0]
    if base.endswith('::deref') and f.params and re.match(r'_1: &[A-Z_0-9]+$', f.params[0].strip()):
        cur_static = f.params[0].strip()[5:]
    elif base.endswith('::deref::__static_ref_initialize') and cur_static:
        owner[n] = cur_static
ip.static_owner = lambda n: owner.get(n)
ip.alloc_static = {}
for crate, txt in (('nsym', text), ('vstd', open('/tmp/probe/vstd.mir').read()), ('futures', open('/tmp/probe/futures.mir').read())):
    for m in re.finditer(r'^(alloc\d+) \(static: ([^,]+),', txt, re.M):
        nm = m.group(2).strip(); full = ('vstd::' + nm) if crate == 'vstd' else nm
        cands = [n for n in fns if n == full or n.endswith('::' + nm)]
        ip.alloc_static[(crate, m.group(1))] = ([n for n in cands if n.startswith('vstd::') == (crate == 'vstd')] or cands or [full])[0]
models.install(ip); models.install2(ip); models.install3(ip); models.install4(ip); models.install5(ip); models.install6(ip); models.install7(ip); models.install8(ip); models.install9(ip); models.install10(ip); models.install11(ip)
import threads, threading
threading.stack_size(256*1024*1024); sys.setrecursionlimit(100000)
threads.install(ip)
entry = sys.argv[1]
t = time.time()
orig_run_path = ip.run
try:
    st = ip.run(entry)
except Exception as e:
    import traceback; traceback.print_exc(); st = ip.stats
print("infeasible", st.get("infeasible"), "paths", st["paths"], "steps", st['steps'], "checks", st['checks'], "solver queries", ip.solver.queries, "solver time %.2fs" % ip.solver.time, "total %.2fs" % (time.time() - t))
print("slow queries", getattr(ip.solver,"slow",0), "unknown branches", ip.unknowns)
print("unsupported:", st.get("unsupported"))
for v_ in st['violations'][:10]: print("VIOLATION", v_[0], v_[1])
