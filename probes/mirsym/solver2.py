import subprocess, time
class Solver2:
    """non-incremental: keeps the assertion stack in Python, spawns cvc5 per check"""
    def __init__(self):
        self.stack = [[]]; self.decls = set(); self.queries = 0; self.time = 0.0; self.slow = 0; self.cache = {}
    def declare(self, name, sort):
        if name not in self.decls:
            self.decls.add(name); self.stack[-1].append("(declare-fun %s () %s)" % (name, sort))
    def push(self): self.stack.append([])
    def pop(self): self.stack.pop()
    def add(self, t): self.stack[-1].append("(assert %s)" % t)
    def script(self, extra=""):
        return "(set-logic ALL)\n(set-option :produce-models true)\n" + "\n".join(x for fr in self.stack for x in fr) + "\n(check-sat)\n" + extra
    def run(self, script):
        t = time.time()
        p = subprocess.run(["cvc5", "--lang", "smt2", "--strings-exp", "--tlimit=5000"], input=script, capture_output=True, text=True)
        dt = time.time() - t; self.time += dt
        if dt > 1: self.slow += 1
        return p.stdout
    def check(self):
        self.queries += 1
        s = self.script()
        if s in self.cache: return self.cache[s]
        out = self.run(s).strip().split("\n")[0]
        if out not in ("sat", "unsat"): out = "unknown"
        self.cache[s] = out
        return out
    def value(self, names):
        out = self.run(self.script("(get-value (%s))\n" % " ".join(names)))
        return " ".join(out.strip().split("\n")[1:])
