import sys, collections
from mirparse import *
text=open('/tmp/probe/slice.mir').read()
fns=parse_mir(text)
print(len(fns),"fns")
bad=collections.Counter(); nst=0; examples={}
for f in fns.values():
    for bb,parts in f.blocks.items():
        for k,p in enumerate(parts):
            nst+=1
            try:
                if k==len(parts)-1: 
                    try: parse_term(p)
                    except Exception as e:
                        r=parse_stmt(p)
                else: parse_stmt(p)
            except Exception as e:
                key=type(e).__name__+":"+str(e)[:60]
                bad[key]+=1; examples.setdefault(key,(f.name,p))
print(nst,"stmts", sum(bad.values()),"bad")
for k,v in bad.most_common(25): print(v,k,"\n     ",examples[k][0],"::",examples[k][1][:200])
