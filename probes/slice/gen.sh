#!/bin/sh
set -e
cd /tmp/probe/slice
rm -rf nsym/src; mkdir -p nsym
python3 slicer.py nsym
cat > nsym/Cargo.toml <<'EOT'
[package]
name = "nsym"
version = "0.0.0"
edition = "2018"
[workspace]
[dependencies]
vstd = { path = "../shims/vstd" }
futures = { path = "../shims/futures" }
log = { path = "../shims/log" }
atomic_float = { path = "../shims/atomic_float" }
thread-id = { path = "../shims/thread_id", package = "thread_id" }
bincode = { path = "../shims/bincode" }
lazy_static = "=1.5.0"
vsym = { path = "../shims/vsym" }
[lints.rust]
unexpected_cfgs = { level = "allow" }
EOT
[ -f harness.rs ] && cp harness.rs nsym/src/harness.rs || echo "" > nsym/src/harness.rs
