use crate::bo::*;
use crate::db_ops::*;
pub fn m_next_version() {
    let ch = Change { key: String::from("k"), value: String::from("v"), version: vsym::any_i32(), opp_id: 1, resolve_conflict: vsym::any_bool() };
    let old = Value { value: String::from("o"), version: vsym::any_i32(), opp_id: 0, state: ValueStatus::Ok, value_disk_addr: 0, key_disk_addr: 0 };
    vsym::assume(old.version >= 1 && ch.version >= -1);
    let nv = ch.next_version(&old);
    if !ch.resolve_conflict && ch.version != -1 { vsym::check(nv == ch.version + 1); }
    if !ch.resolve_conflict && ch.version == -1 { vsym::check(nv == old.version + 1); }
}
pub fn m_pattern() {
    let key = vsym::any_str(); let pat = String::from("ab*");
    let f = get_function_by_pattern(&pat);
    let m = f(&key, &pat);
    vsym::check(m == key.starts_with("ab"));
    let pat2 = String::from("*ab");
    let m2 = get_function_by_pattern(&pat2)(&key, &pat2);
    vsym::check(m2 == key.ends_with("ab"));
    let pat3 = vsym::any_str();
    vsym::assume(!pat3.contains("*"));
    let m3 = get_function_by_pattern(&pat3)(&key, &pat3);
    vsym::check(m3 == key.contains(&pat3));
}
pub fn m_parse() {
    let s = vsym::any_str();
    vsym::assume(s.len() <= 24);
    let _ = Request::parse(&s);
}
pub fn m_set_get() {
    let db = Database::new(String::from("d"), DatabaseMataData::new(1, ConsensuStrategy::None));
    let k = String::from("a");
    let v = vsym::any_str();
    let ver = vsym::any_i32();
    vsym::assume(ver >= -1 && ver < 1000);
    let r = db.set_value(&Change::new(k.clone(), v.clone(), ver));
    let ver2 = vsym::any_i32();
    vsym::assume(ver2 >= -1 && ver2 < 1000);
    let r2 = db.set_value(&Change::new(k.clone(), String::from("w"), ver2));
    let accepted = match r2 { Response::Set { .. } => true, _ => false };
    vsym::check(accepted == (ver2 == -1 || ver2 >= ver + 1));
    let g = db.get_value(k.clone()).unwrap();
    if accepted { vsym::check(g.value == "w"); } else { vsym::check(g.value == v); vsym::check(g.version == ver + 1); }
}
use crate::process_request::process_request;
use futures::channel::mpsc::{channel, Receiver, Sender};
use vstd::sync::Arc;
pub fn mk_dbs() -> Arc<Databases> {
    let (s1, _r1): (Sender<String>, Receiver<String>) = channel(100);
    let (s2, _r2): (Sender<String>, Receiver<String>) = channel(100);
    let dbs = Arc::new(Databases::new(String::from("user"), String::from("pwd"), String::from("n1"), String::from("n1"), s1, s2, vstd::collections::HashMap::new(), 1u128, true));
    dbs.node_state.swap(ClusterRole::Primary as usize, vstd::sync::atomic::Ordering::Relaxed);
    std::mem::forget(_r1); std::mem::forget(_r2);
    dbs
}
pub fn m_kv_step() {
    let dbs = mk_dbs();
    let (mut client, mut rx) = Client::new_empty_and_receiver();
    let r = process_request("auth user pwd", &dbs, &mut client);
    let r = process_request("create-db d tok", &dbs, &mut client);
    let (mut c2, mut rx2) = Client::new_empty_and_receiver();
    let r = process_request("use-db d tok", &dbs, &mut c2);
    vsym::check(match r { Response::Ok {} => true, _ => false });
    let v = vsym::any_str();
    vsym::assume(v.len() <= 6 && !v.contains("\n") && !v.contains(";"));
    let cmd = [ "set k ", &v ].concat();
    let r = process_request(&cmd, &dbs, &mut c2);
    let r = process_request("get k", &dbs, &mut c2);
    match r { Response::Value { key: _, value, version: _ } => vsym::check(value == v), _ => vsym::check(false) }
}
pub fn m_dbg() -> (Response, Response, Response, Vec<String>) {
    let dbs = mk_dbs();
    let (mut client, mut rx) = Client::new_empty_and_receiver();
    let r1 = process_request("auth user pwd", &dbs, &mut client);
    let r2 = process_request("create-db d tok", &dbs, &mut client);
    let (mut c2, mut rx2) = Client::new_empty_and_receiver();
    let r3 = process_request("use-db d tok", &dbs, &mut c2);
    let mut msgs = Vec::new();
    while let Ok(Some(m)) = rx.try_next() { msgs.push(m); }
    (r1, r2, r3, msgs)
}
pub fn m_dbg2() -> bool {
    let dbs = mk_dbs();
    let (mut client, mut rx) = Client::new_empty_and_receiver();
    let r1 = process_request("auth user pwd", &dbs, &mut client);
    let r2 = process_request("create-db d tok", &dbs, &mut client);
    let m = dbs.map.read().unwrap();
    let db = m.get(&String::from("d")).unwrap();
    is_valid_token(&String::from("tok"), db)
}
pub fn m_dbg3() -> Arc<Databases> {
    let dbs = mk_dbs();
    let (mut client, mut rx) = Client::new_empty_and_receiver();
    let r1 = process_request("auth user pwd", &dbs, &mut client);
    let r2 = process_request("create-db d tok", &dbs, &mut client);
    dbs
}
pub fn m_race() {
    let db = Arc::new(Database::new(String::from("d"), DatabaseMataData::new(1, ConsensuStrategy::None)));
    let k = String::from("k");
    db.set_value(&Change::new(k.clone(), String::from("v0"), -1));
    let cur = db.get_value(k.clone()).unwrap().version;
    let d1 = db.clone(); let d2 = db.clone();
    let t1 = vsym::spawn(move || match d1.set_value(&Change::new(String::from("k"), String::from("a"), cur)) { Response::Set { .. } => true, _ => false });
    let t2 = vsym::spawn(move || match d2.set_value(&Change::new(String::from("k"), String::from("b"), cur)) { Response::Set { .. } => true, _ => false });
    let r1 = vsym::join(t1);
    let r2 = vsym::join(t2);
    vsym::check(!(r1 && r2));
}
use crate::disk_ops::*;
pub fn m_oplog() {
    // three records with symbolic non-decreasing timestamps, written by the real writer
    let mut w = Oplog::get_log_file_append_mode();
    let t1 = vsym::any_u64(); let t2 = vsym::any_u64(); let t3 = vsym::any_u64();
    vsym::assume(t1 >= 1 && t1 < t2 && t2 < t3 && t3 < 1000000);
    Oplog::write_op_log(&mut w, 1, 10, &ReplicateOpp::Update, t1).unwrap();
    Oplog::write_op_log(&mut w, 1, 11, &ReplicateOpp::Update, t2).unwrap();
    Oplog::write_op_log(&mut w, 1, 12, &ReplicateOpp::Remove, t3).unwrap();
    vsym::check(Oplog::last_op_time() == t3);
    let since = vsym::any_u64();
    let ops = read_operations_since(since);
    // oracle: key k present iff its record time >= since
    vsym::check(!(t1 >= since) || ops.contains_key("1_10"));
    vsym::check(!(t2 >= since) || ops.contains_key("1_11"));
    vsym::check(!(t3 >= since) || ops.contains_key("1_12"));
}
