use std::time::Duration;
pub static mut NOW_NS: u64 = 1_000;
pub static mut YIELD_HOOK: Option<fn()> = None;
pub static mut SLEEP_HOOK: Option<fn()> = None;
pub fn yield_point() { unsafe { if let Some(h) = YIELD_HOOK { h(); } } }
pub fn on_sleep(_d: Duration) { unsafe { if let Some(h) = SLEEP_HOOK { h(); } } }
fn tick() -> u64 { unsafe { NOW_NS += 1; NOW_NS } }
#[derive(Clone, Copy, Debug, PartialEq, PartialOrd)] pub struct SystemTime(u64);
pub const UNIX_EPOCH: SystemTime = SystemTime(0);
#[derive(Debug)] pub struct TimeErr;
impl SystemTime {
    pub fn now() -> SystemTime { SystemTime(tick()) }
    pub fn duration_since(&self, e: SystemTime) -> Result<Duration, TimeErr> { Ok(Duration::from_nanos(self.0 - e.0)) }
}
#[derive(Clone, Copy, Debug)] pub struct Instant(u64);
impl Instant { pub fn now() -> Instant { Instant(0) } pub fn elapsed(&self) -> Duration { Duration::from_nanos(0) } }
