pub fn any_i32() -> i32 { 0 }
pub fn any_bool() -> bool { false }
pub fn any_str() -> String { String::new() }
pub fn assume(_c: bool) {}
pub fn check(c: bool) { assert!(c) }
pub struct Handle(pub usize);
pub fn spawn<F: FnOnce() -> bool + 'static>(_f: F) -> Handle { Handle(0) }
pub fn join(_h: Handle) -> bool { false }
pub fn any_u64() -> u64 { 0 }
