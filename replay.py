#!/usr/bin/env python3
"""replay a recorded counterexample natively: python3 replay.py evidence/replays/<file>.replay.json"""
import sys, os, json
sys.path.insert(0, os.path.dirname(os.path.abspath(__file__)))
from vf import build, engine
r = json.load(open(sys.argv[1]))
b = build.build_all(); binary, _ = build.build_native(b["crate"])
v = {"inputs": r["inputs"], "sched": r["sched"], "kind": "panic" if r["check"].startswith("panic:") else "check", "check": r["check"]}
fn = r.get("fn") or r["harness"]
ok, out = engine.native_replay(binary, fn, v, r.get("params", {}), sys.argv[1].replace(".json", ""))
print(out); print("REPRODUCED" if ok else "NOT REPRODUCED"); sys.exit(0 if ok else 1)
