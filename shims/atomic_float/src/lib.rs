use std::sync::atomic::{AtomicU64, Ordering};
pub struct AtomicF64(AtomicU64);
impl AtomicF64 {
    pub fn new(v: f64) -> Self { AtomicF64(AtomicU64::new(v.to_bits())) }
    pub fn load(&self, o: Ordering) -> f64 { f64::from_bits(self.0.load(o)) }
    pub fn store(&self, v: f64, o: Ordering) { self.0.store(v.to_bits(), o) }
    pub fn compare_and_swap(&self, cur: f64, new: f64, _o: Ordering) -> f64 {
        let old = self.0.load(Ordering::SeqCst);
        if old == cur.to_bits() { self.0.store(new.to_bits(), Ordering::SeqCst); }
        f64::from_bits(old)
    }
}
