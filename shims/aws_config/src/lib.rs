#![allow(warnings)]
pub struct Region {}
impl Region { pub fn new(_name: &'static str) -> Region { Region {} } }
