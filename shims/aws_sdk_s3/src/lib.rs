#![allow(warnings)]
//! In-process S3-compatible stub behind the aws-sdk-s3 call surface used by nun-db (put_object / get_object /
//! list_objects_v2 fluent builders). One global bucket (object key -> bytes, listed in key order as S3 does), a request
//! log, and a fault schedule set by the harness: the PUT with index PUT_FAIL_AT fails (once, or that one and every later
//! one), the GET with index GET_FAIL_AT fails once. Indices are compared with the request counters, so a solver-chosen
//! index makes every request a branch "is this the failing one?".
use std::fmt;
use std::future::Future; use std::pin::Pin; use std::task::{Context, Poll};
pub struct Obj { pub key: String, pub data: Vec<u8> }
pub static mut BUCKET: Vec<Obj> = Vec::new();
pub static mut PUTS: u64 = 0;
pub static mut GETS: u64 = 0;
pub static mut PUT_FAIL_AT: u64 = u64::MAX;
pub static mut PUT_FAIL_ALWAYS: bool = false;
pub static mut GET_FAIL_AT: u64 = u64::MAX;
pub static mut FAILED_PUTS: u64 = 0;
pub static mut FAILED_GETS: u64 = 0;
/// object keys whose most recent PUT failed (cleared by a later successful PUT of the same key)
pub static mut LAST_FAILED: Vec<String> = Vec::new();
fn last_failed() -> &'static mut Vec<String> { unsafe { &mut *std::ptr::addr_of_mut!(LAST_FAILED) } }
pub fn last_put_failed() -> usize { last_failed().len() }
fn note_put(k: &String, ok: bool) {
    let l = last_failed(); let mut i = 0; let mut at: Option<usize> = None;
    while i < l.len() { if l[i] == *k { at = Some(i); } i += 1; }
    if ok { if let Some(j) = at { l.remove(j); } } else if at.is_none() { l.push(k.clone()); }
}
pub fn s3_bucket() -> &'static mut Vec<Obj> { unsafe { &mut *std::ptr::addr_of_mut!(BUCKET) } }
fn s3_find(k: &str) -> Option<usize> { let b = s3_bucket(); let mut i = 0; while i < b.len() { if b[i].key == k { return Some(i); } i += 1; } None }
fn s3_store(k: String, data: Vec<u8>) {
    match s3_find(&k) {
        Some(i) => { s3_bucket()[i].data = data; }
        None => { let b = s3_bucket(); let mut i = 0; while i < b.len() && b[i].key.as_str() < k.as_str() { i += 1; } b.insert(i, Obj { key: k, data }); }
    }
}
/// a future that is ready at once
pub struct S3Done<T> { pub v: Option<T> }
impl<T> Future for S3Done<T> {
    type Output = T;
    fn poll(self: Pin<&mut Self>, _cx: &mut Context<'_>) -> Poll<T> { let this = unsafe { self.get_unchecked_mut() }; Poll::Ready(this.v.take().unwrap()) }
}
#[derive(Debug)] pub struct SdkError { pub what: &'static str }
impl fmt::Display for SdkError { fn fmt(&self, f: &mut fmt::Formatter<'_>) -> fmt::Result { write!(f, "{}", self.what) } }
pub mod config {
    pub use aws_config::Region;
    pub struct Credentials {}
    impl Credentials { pub fn new(_id: &str, _secret: &str, _token: Option<String>, _expires: Option<std::time::SystemTime>, _provider: &'static str) -> Credentials { Credentials {} } }
    pub struct Builder {}
    pub struct Config {}
    impl Builder {
        pub fn new() -> Builder { Builder {} }
        pub fn endpoint_url(self, _u: &str) -> Builder { self }
        pub fn credentials_provider(self, _c: Credentials) -> Builder { self }
        pub fn region(self, _r: Region) -> Builder { self }
        pub fn force_path_style(self, _f: bool) -> Builder { self }
        pub fn build(self) -> Config { Config {} }
    }
}
pub mod primitives {
    use super::{S3Done, SdkError};
    pub struct ByteStream { pub data: bytes::Bytes }
    impl From<bytes::Bytes> for ByteStream { fn from(b: bytes::Bytes) -> ByteStream { ByteStream { data: b } } }
    pub struct AggregatedBytes { pub data: bytes::Bytes }
    impl AggregatedBytes { pub fn into_bytes(self) -> bytes::Bytes { self.data } }
    impl ByteStream { pub fn collect(self) -> S3Done<Result<AggregatedBytes, SdkError>> { S3Done { v: Some(Ok(AggregatedBytes { data: self.data })) } } }
}
pub struct Client {}
pub struct PutObject { bucket: String, key: String, body: Option<primitives::ByteStream> }
pub struct PutObjectOutput {}
pub struct GetObject { bucket: String, key: String }
pub struct GetObjectOutput { pub body: primitives::ByteStream }
pub struct ListObjectsV2 { bucket: String, prefix: Option<String> }
pub struct Object { pub k: String }
impl Object { pub fn key(&self) -> Option<&str> { Some(self.k.as_str()) } }
pub struct ListObjectsV2Output { pub objects: Vec<Object> }
impl ListObjectsV2Output { pub fn contents(&self) -> &[Object] { &self.objects } }
impl Client {
    pub fn from_conf(_c: config::Config) -> Client { Client {} }
    pub fn put_object(&self) -> PutObject { PutObject { bucket: String::new(), key: String::new(), body: None } }
    pub fn get_object(&self) -> GetObject { GetObject { bucket: String::new(), key: String::new() } }
    pub fn list_objects_v2(&self) -> ListObjectsV2 { ListObjectsV2 { bucket: String::new(), prefix: None } }
}
pub trait IntoKey { fn into_key(self) -> String; }
impl IntoKey for String { fn into_key(self) -> String { self } }
impl IntoKey for &String { fn into_key(self) -> String { self.clone() } }
impl IntoKey for &str { fn into_key(self) -> String { String::from(self) } }
impl PutObject {
    pub fn bucket<K: IntoKey>(mut self, b: K) -> Self { self.bucket = b.into_key(); self }
    pub fn key<K: IntoKey>(mut self, k: K) -> Self { self.key = k.into_key(); self }
    pub fn body(mut self, b: primitives::ByteStream) -> Self { self.body = Some(b); self }
    pub fn send(self) -> S3Done<Result<PutObjectOutput, SdkError>> {
        let n = unsafe { let n = PUTS; PUTS += 1; n };
        let fail = unsafe { n == PUT_FAIL_AT || (PUT_FAIL_ALWAYS && n > PUT_FAIL_AT) };
        note_put(&self.key, !fail);
        if fail { unsafe { FAILED_PUTS += 1; } return S3Done { v: Some(Err(SdkError { what: "put failed (injected fault)" })) }; }
        s3_store(self.key, self.body.unwrap().data.v);
        S3Done { v: Some(Ok(PutObjectOutput {})) }
    }
}
impl GetObject {
    pub fn bucket<K: IntoKey>(mut self, b: K) -> Self { self.bucket = b.into_key(); self }
    pub fn key<K: IntoKey>(mut self, k: K) -> Self { self.key = k.into_key(); self }
    pub fn send(self) -> S3Done<Result<GetObjectOutput, SdkError>> {
        let n = unsafe { let n = GETS; GETS += 1; n };
        if unsafe { n == GET_FAIL_AT } { unsafe { FAILED_GETS += 1; } return S3Done { v: Some(Err(SdkError { what: "get failed (injected fault)" })) }; }
        match s3_find(&self.key) {
            Some(i) => { let d = &s3_bucket()[i].data; let mut c = Vec::new(); let mut j = 0; while j < d.len() { c.push(d[j]); j += 1; } S3Done { v: Some(Ok(GetObjectOutput { body: primitives::ByteStream { data: bytes::Bytes::from_vec(c) } })) } }
            None => S3Done { v: Some(Err(SdkError { what: "NoSuchKey" })) },
        }
    }
}
impl ListObjectsV2 {
    pub fn bucket<K: IntoKey>(mut self, b: K) -> Self { self.bucket = b.into_key(); self }
    pub fn set_prefix(mut self, p: Option<String>) -> Self { self.prefix = p; self }
    pub fn send(self) -> S3Done<Result<ListObjectsV2Output, SdkError>> {
        let mut out = Vec::new();
        let b = s3_bucket(); let mut i = 0;
        while i < b.len() {
            let ok = match &self.prefix { Some(p) => b[i].key.starts_with(p.as_str()), None => true };
            if ok { out.push(Object { k: b[i].key.clone() }); }
            i += 1;
        }
        S3Done { v: Some(Ok(ListObjectsV2Output { objects: out })) }
    }
}
