// model of bincode 1.x default encoding for HashMap<String,u64>: u64 len, then (u64 klen, bytes, u64 v)*
use vstd::collections::HashMap;
use std::io::{Read, Write};
#[derive(Debug)] pub struct Error;
impl std::fmt::Display for Error { fn fmt(&self, f: &mut std::fmt::Formatter<'_>) -> std::fmt::Result { write!(f, "io error") } }
impl std::error::Error for Error {}
pub fn serialize_into<W: Write>(mut w: W, m: &HashMap<String, u64>) -> Result<(), Error> {
    w.write_all(&(m.len() as u64).to_le_bytes()).map_err(|_| Error)?;
    for (k, v) in m.iter() {
        w.write_all(&(k.len() as u64).to_le_bytes()).map_err(|_| Error)?;
        w.write_all(k.as_bytes()).map_err(|_| Error)?;
        w.write_all(&v.to_le_bytes()).map_err(|_| Error)?;
    }
    Ok(())
}
pub fn deserialize_from<R: Read>(mut r: R) -> Result<HashMap<String, u64>, Error> {
    let mut b8 = [0u8; 8];
    r.read_exact(&mut b8).map_err(|_| Error)?;
    let n = u64::from_le_bytes(b8);
    let mut m = HashMap::new();
    let mut i = 0;
    while i < n {
        r.read_exact(&mut b8).map_err(|_| Error)?;
        let kl = u64::from_le_bytes(b8) as usize;
        let mut kb = vec![0u8; kl];
        r.read_exact(&mut kb).map_err(|_| Error)?;
        r.read_exact(&mut b8).map_err(|_| Error)?;
        m.insert(String::from_utf8(kb).map_err(|_| Error)?, u64::from_le_bytes(b8));
        i += 1;
    }
    Ok(m)
}
