#![allow(warnings)]
//! model of the `bytes` crate surface used by the S3 strategies: growable buffer, split + freeze into an immutable one
pub struct BytesMut { pub v: Vec<u8> }
pub struct Bytes { pub v: Vec<u8> }
pub trait BufMut { fn put_slice(&mut self, src: &[u8]); }
impl BytesMut {
    pub fn with_capacity(_c: usize) -> BytesMut { BytesMut { v: Vec::new() } }
    pub fn new() -> BytesMut { BytesMut { v: Vec::new() } }
    /// takes everything written so far, leaving `self` empty
    pub fn split(&mut self) -> BytesMut { BytesMut { v: std::mem::replace(&mut self.v, Vec::new()) } }
    pub fn freeze(self) -> Bytes { Bytes { v: self.v } }
    pub fn len(&self) -> usize { self.v.len() }
}
impl BufMut for BytesMut {
    fn put_slice(&mut self, src: &[u8]) { let mut j = 0; while j < src.len() { self.v.push(src[j]); j += 1; } }
}
impl Bytes {
    pub fn len(&self) -> usize { self.v.len() }
    pub fn from_vec(v: Vec<u8>) -> Bytes { Bytes { v } }
}
impl AsRef<[u8]> for Bytes { fn as_ref(&self) -> &[u8] { &self.v } }
