pub mod channel { pub mod mpsc {
    use std::cell::UnsafeCell;
        use std::sync::Arc;
    use std::fmt;
    pub struct Inner<T> { pub q: UnsafeCell<Vec<T>>, pub cap: usize, pub closed: UnsafeCell<bool> }
    unsafe impl<T> Sync for Inner<T> {}
    unsafe impl<T> Send for Inner<T> {}
    pub struct Sender<T> { pub inner: Arc<Inner<T>> }
    pub struct Receiver<T> { pub inner: Arc<Inner<T>> }
    impl<T> Clone for Sender<T> { fn clone(&self) -> Self { Sender { inner: self.inner.clone() } } }
    #[derive(Debug)] pub struct TrySendError { pub full: bool }
    impl fmt::Display for TrySendError { fn fmt(&self, f: &mut fmt::Formatter<'_>) -> fmt::Result { write!(f, "send failed") } }
    #[derive(Debug)] pub struct TryRecvError;
    impl fmt::Display for TryRecvError { fn fmt(&self, f: &mut fmt::Formatter<'_>) -> fmt::Result { write!(f, "channel empty") } }
    pub fn channel<T>(buffer: usize) -> (Sender<T>, Receiver<T>) {
        let inner = Arc::new(Inner { q: UnsafeCell::new(Vec::new()), cap: buffer + 1, closed: UnsafeCell::new(false) });
        (Sender { inner: inner.clone() }, Receiver { inner })
    }
    impl<T> Sender<T> {
        pub fn try_send(&mut self, msg: T) -> Result<(), TrySendError> {
            let q = unsafe { &mut *self.inner.q.get() };
            if unsafe { *self.inner.closed.get() } { return Err(TrySendError { full: false }); }
            if q.len() >= self.inner.cap { return Err(TrySendError { full: true }); }
            q.push(msg); Ok(())
        }
        pub fn same_receiver(&self, other: &Self) -> bool { Arc::ptr_eq(&self.inner, &other.inner) }
        /// harness-only: number of queued messages
        pub fn len(&self) -> usize { unsafe { (&*self.inner.q.get()).len() } }
        pub fn is_closed(&self) -> bool { unsafe { *self.inner.closed.get() } }
        pub fn close_channel(&mut self) { unsafe { *self.inner.closed.get() = true; } }
    }
    impl<T> Receiver<T> {
        pub fn try_next(&mut self) -> Result<Option<T>, TryRecvError> {
            let q = unsafe { &mut *self.inner.q.get() };
            if q.len() == 0 { Err(TryRecvError) } else { Ok(Some(q.remove(0))) }
        }
        pub fn len(&self) -> usize { unsafe { (&*self.inner.q.get()).len() } }
    }
    impl<T> Drop for Receiver<T> { fn drop(&mut self) { unsafe { *self.inner.closed.get() = true; } } }
} }
pub mod stream {
    use super::channel::mpsc::Receiver; use super::stream_impl::Next;
    pub trait StreamExt { type Item; fn next(&mut self) -> Next<'_, Self::Item>; }
    impl<T> StreamExt for Receiver<T> { type Item = T; fn next(&mut self) -> Next<'_, T> { Next { r: self } } }
}
pub mod stream_impl {
    use super::channel::mpsc::Receiver;
    use std::future::Future; use std::pin::Pin; use std::task::{Context, Poll};
    pub struct Next<'a, T> { pub r: &'a mut Receiver<T> }
    impl<'a, T> Future for Next<'a, T> {
        type Output = Option<T>;
        fn poll(self: Pin<&mut Self>, _cx: &mut Context<'_>) -> Poll<Option<T>> {
            let this = unsafe { self.get_unchecked_mut() };
            match this.r.try_next() { Ok(Some(m)) => Poll::Ready(Some(m)), _ => Poll::Pending }
        }
    }
}
