pub mod channel { pub mod mpsc {
    // model of futures 0.3 bounded mpsc: FIFO queue, capacity = buffer + one guaranteed slot per sender: a sender that pushes
    // the queue to / past `buffer` is parked and its next try_send fails with Full until the receiver has dequeued a message and
    // unparked it (senders are unparked in parking order, one per dequeued message). A fresh clone is never parked.
    use std::cell::{Cell, UnsafeCell};
    use std::sync::Arc;
    use std::fmt;
    pub struct Task { pub parked: Cell<bool> }
    unsafe impl Sync for Task {} unsafe impl Send for Task {}
    pub struct Inner<T> { pub q: UnsafeCell<Vec<T>>, pub buffer: usize, pub closed: UnsafeCell<bool>, pub parked: UnsafeCell<Vec<Arc<Task>>> }
    unsafe impl<T> Sync for Inner<T> {}
    unsafe impl<T> Send for Inner<T> {}
    pub struct Sender<T> { pub inner: Arc<Inner<T>>, pub task: Arc<Task>, pub maybe_parked: Cell<bool> }
    unsafe impl<T> Sync for Sender<T> {}
    pub struct Receiver<T> { pub inner: Arc<Inner<T>> }
    impl<T> Clone for Sender<T> { fn clone(&self) -> Self { Sender { inner: self.inner.clone(), task: Arc::new(Task { parked: Cell::new(false) }), maybe_parked: Cell::new(false) } } }
    #[derive(Debug)] pub struct TrySendError { pub full: bool }
    impl TrySendError { pub fn is_full(&self) -> bool { self.full } pub fn is_disconnected(&self) -> bool { !self.full } }
    impl fmt::Display for TrySendError { fn fmt(&self, f: &mut fmt::Formatter<'_>) -> fmt::Result { if self.full { write!(f, "send failed because channel is full") } else { write!(f, "send failed because receiver is gone") } } }
    #[derive(Debug)] pub struct TryRecvError;
    impl fmt::Display for TryRecvError { fn fmt(&self, f: &mut fmt::Formatter<'_>) -> fmt::Result { write!(f, "receiver channel is empty") } }
    pub fn channel<T>(buffer: usize) -> (Sender<T>, Receiver<T>) {
        let inner = Arc::new(Inner { q: UnsafeCell::new(Vec::new()), buffer, closed: UnsafeCell::new(false), parked: UnsafeCell::new(Vec::new()) });
        (Sender { inner: inner.clone(), task: Arc::new(Task { parked: Cell::new(false) }), maybe_parked: Cell::new(false) }, Receiver { inner })
    }
    /// harness switch: when set, handing a message to a channel is a scheduler yield point (another thread may run between the
    /// computation of a message and its delivery to the queue)
    pub static mut YIELD_ON_SEND: bool = false;
    impl<T> Sender<T> {
        pub fn try_send(&mut self, msg: T) -> Result<(), TrySendError> {
            if unsafe { YIELD_ON_SEND } { vsym::yield_now(); }
            if self.maybe_parked.get() { if self.task.parked.get() { return Err(TrySendError { full: true }); } self.maybe_parked.set(false); }
            if unsafe { *self.inner.closed.get() } { return Err(TrySendError { full: false }); }
            let q = unsafe { &mut *self.inner.q.get() };
            let park_self = q.len() >= self.inner.buffer;
            q.push(msg);
            if park_self { self.task.parked.set(true); unsafe { (&mut *self.inner.parked.get()).push(self.task.clone()); } self.maybe_parked.set(true); }
            Ok(())
        }
        pub fn same_receiver(&self, other: &Self) -> bool { Arc::ptr_eq(&self.inner, &other.inner) }
        /// harness-only: number of queued messages
        pub fn len(&self) -> usize { unsafe { (&*self.inner.q.get()).len() } }
        pub fn is_closed(&self) -> bool { unsafe { *self.inner.closed.get() } }
        pub fn close_channel(&mut self) { unsafe { *self.inner.closed.get() = true; } }
    }
    impl<T> Receiver<T> {
        pub fn try_next(&mut self) -> Result<Option<T>, TryRecvError> {
            let q = unsafe { &mut *self.inner.q.get() };
            if q.len() == 0 { return Err(TryRecvError); }
            let m = q.remove(0);
            let p = unsafe { &mut *self.inner.parked.get() };
            if p.len() > 0 { let t = p.remove(0); t.parked.set(false); }
            Ok(Some(m))
        }
        pub fn len(&self) -> usize { unsafe { (&*self.inner.q.get()).len() } }
        pub fn close(&mut self) { unsafe { *self.inner.closed.get() = true; } }
    }
    impl<T> Drop for Receiver<T> { fn drop(&mut self) { unsafe { *self.inner.closed.get() = true; } } }
} }
pub mod stream {
    use super::channel::mpsc::Receiver; use super::stream_impl::Next;
    pub trait StreamExt { type Item; fn next(&mut self) -> Next<'_, Self::Item>; }
    impl<T> StreamExt for Receiver<T> { type Item = T; fn next(&mut self) -> Next<'_, T> { Next { r: self } } }
}
pub mod stream_impl {
    use super::channel::mpsc::Receiver;
    use std::future::Future; use std::pin::Pin; use std::task::{Context, Poll};
    pub struct Next<'a, T> { pub r: &'a mut Receiver<T> }
    impl<'a, T> Future for Next<'a, T> {
        type Output = Option<T>;
        fn poll(self: Pin<&mut Self>, _cx: &mut Context<'_>) -> Poll<Option<T>> {
            let this = unsafe { self.get_unchecked_mut() };
            match this.r.try_next() { Ok(Some(m)) => Poll::Ready(Some(m)), _ => Poll::Pending }
        }
    }
}
// ---- async I/O over an in-memory buffer (futures::io::Cursor + the AsyncReadExt / AsyncSeekExt methods nun-db uses)
pub mod io {
    use std::future::Future; use std::pin::Pin; use std::task::{Context, Poll};
    pub use std::io::SeekFrom;
    pub struct Cursor<T> { pub inner: T, pub pos: u64 }
    impl<T> Cursor<T> {
        pub fn new(inner: T) -> Cursor<T> { Cursor { inner, pos: 0 } }
        pub fn position(&self) -> u64 { self.pos }
        pub fn get_ref(&self) -> &T { &self.inner }
    }
    /// a future that is ready at once
    pub struct IoDone<T> { pub v: Option<T> }
    impl<T> Future for IoDone<T> {
        type Output = T;
        fn poll(self: Pin<&mut Self>, _cx: &mut Context<'_>) -> Poll<T> { let this = unsafe { self.get_unchecked_mut() }; Poll::Ready(this.v.take().unwrap()) }
    }
    pub trait AsyncReadExt { fn read(&mut self, buf: &mut [u8]) -> IoDone<std::io::Result<usize>>; }
    pub trait AsyncSeekExt { fn seek(&mut self, pos: SeekFrom) -> IoDone<std::io::Result<u64>>; }
    impl<T> AsyncReadExt for Cursor<T> where T: AsRef<[u8]> {
        fn read(&mut self, buf: &mut [u8]) -> IoDone<std::io::Result<usize>> {
            let data = self.inner.as_ref();
            let len = data.len() as u64;
            let start = if self.pos < len { self.pos } else { len };
            let avail = (len - start) as usize;
            let n = if buf.len() < avail { buf.len() } else { avail };
            let mut j = 0; while j < n { buf[j] = data[start as usize + j]; j += 1; }
            self.pos += n as u64;
            IoDone { v: Some(Ok(n)) }
        }
    }
    impl<T> AsyncSeekExt for Cursor<T> where T: AsRef<[u8]> {
        fn seek(&mut self, pos: SeekFrom) -> IoDone<std::io::Result<u64>> {
            match pos {
                SeekFrom::Start(p) => { self.pos = p; }
                SeekFrom::End(d) => { self.pos = (self.inner.as_ref().len() as i64 + d) as u64; }
                SeekFrom::Current(d) => { self.pos = (self.pos as i64 + d) as u64; }
            }
            IoDone { v: Some(Ok(self.pos)) }
        }
    }
}
pub use io::{AsyncReadExt, AsyncSeekExt};
