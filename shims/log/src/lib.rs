#[macro_export] macro_rules! debug { ($($arg:tt)*) => { { if false { let _ = format_args!($($arg)*); } } } }
#[macro_export] macro_rules! info { ($($arg:tt)*) => { { if false { let _ = format_args!($($arg)*); } } } }
#[macro_export] macro_rules! warn { ($($arg:tt)*) => { { if false { let _ = format_args!($($arg)*); } } } }
#[macro_export] macro_rules! error { ($($arg:tt)*) => { { if false { let _ = format_args!($($arg)*); } } } }
#[macro_export] macro_rules! trace { ($($arg:tt)*) => { { if false { let _ = format_args!($($arg)*); } } } }
