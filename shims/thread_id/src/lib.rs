pub fn get() -> usize { 1 }
