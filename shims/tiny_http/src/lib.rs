#![allow(warnings)]
//! model of the tiny_http surface used by start_http_client: a queue of request bodies filled by the harness; recv() hands
//! them out in order; a worker that finds the queue empty ends (vsym::end_thread) - in reality it would block for ever
pub static mut REQUESTS: Vec<String> = Vec::new();
pub static mut RESPONSES: Vec<String> = Vec::new();
pub fn http_requests() -> &'static mut Vec<String> { unsafe { &mut *std::ptr::addr_of_mut!(REQUESTS) } }
pub fn http_responses() -> &'static mut Vec<String> { unsafe { &mut *std::ptr::addr_of_mut!(RESPONSES) } }
pub struct Server { pub _p: u8 }
pub struct BodyReader { pub body: String }
pub struct Request { pub reader: BodyReader }
pub struct Response { pub text: String }
#[derive(Debug)] pub struct HttpError { pub _p: u8 }
impl std::fmt::Display for HttpError { fn fmt(&self, f: &mut std::fmt::Formatter<'_>) -> std::fmt::Result { write!(f, "http error") } }
impl Server {
    pub fn http(_addr: String) -> Result<Server, HttpError> { Ok(Server { _p: 0 }) }
    pub fn recv(&self) -> Result<Request, HttpError> {
        if http_requests().len() == 0 { vsym::end_thread(); }
        let body = http_requests().remove(0);
        Ok(Request { reader: BodyReader { body } })
    }
}
impl BodyReader {
    pub fn read_to_string(&mut self, buf: &mut String) -> Result<usize, HttpError> { buf.push_str(&self.body); Ok(self.body.len()) }
}
impl Request {
    pub fn as_reader(&mut self) -> &mut BodyReader { &mut self.reader }
    pub fn respond(self, r: Response) -> Result<(), HttpError> { http_responses().push(r.text); Ok(()) }
}
impl Response { pub fn from_string(s: String) -> Response { Response { text: s } } }
