#![allow(warnings)]
//! model of tokio's runtime: block_on polls the future on the calling thread until it is ready
pub mod runtime {
    use std::future::Future; use std::pin::Pin; use std::task::{Context, Poll, Waker};
    pub struct Runtime { pub _p: u8 }
    impl Runtime {
        pub fn new() -> std::io::Result<Runtime> { Ok(Runtime { _p: 0 }) }
        pub fn block_on<F: Future>(&self, f: F) -> F::Output {
            let mut f = Box::pin(f);
            let mut cx = Context::from_waker(Waker::noop());
            loop { match f.as_mut().poll(&mut cx) { Poll::Ready(v) => return v, Poll::Pending => {} } }
        }
    }
}
