#![allow(warnings)]
pub use std::*;
pub mod vmap;
pub mod vlock;
pub mod vclock;
pub mod vfs;
pub mod vbuf;
pub mod collections { pub use crate::vmap::HashMap; pub use std::collections::{VecDeque, BTreeMap, HashSet}; }
pub mod sync {
    pub use std::sync::{Arc, Weak};
    pub mod atomic { pub use std::sync::atomic::*; }
    pub use crate::vlock::{RwLock, Mutex, RwLockReadGuard, RwLockWriteGuard, MutexGuard};
}
pub mod time { pub use std::time::Duration; pub use crate::vclock::{Instant, SystemTime, UNIX_EPOCH}; }
pub mod thread {
    pub fn sleep(d: std::time::Duration) { crate::vclock::on_sleep(d); }
    /// model of thread::spawn used by the S3 loaders (one thread per database, joined at once): the closure runs to
    /// completion at the spawn point; a panic inside it surfaces there instead of at join().unwrap()
    pub struct JoinHandle<T> { pub v: Option<T> }
    /// joining a thread that never returns (it ended through vsym::end_thread) blocks for ever: ends the joiner too
    impl<T> JoinHandle<T> { pub fn join(mut self) -> Result<T, Box<dyn std::any::Any + Send + 'static>> { if self.v.is_none() { vsym::end_thread(); } Ok(self.v.take().unwrap()) } }
    pub fn spawn<F: FnOnce() -> T, T>(f: F) -> JoinHandle<T> { JoinHandle { v: vsym::run_until_end(f) } }
}
pub mod hash {
    pub use std::hash::{Hash, Hasher};
    /// model of DefaultHasher: the digest is an uninterpreted function of the bytes fed in (vsym::hash_u64: one solver
    /// integer per distinct content), so every assignment of keys to partitions is covered
    pub struct DefaultHasher { pub bytes: Vec<u8> }
    impl DefaultHasher { pub fn new() -> DefaultHasher { DefaultHasher { bytes: Vec::new() } } }
    impl Hasher for DefaultHasher {
        fn write(&mut self, b: &[u8]) { let mut j = 0; while j < b.len() { self.bytes.push(b[j]); j += 1; } }
        fn finish(&self) -> u64 { vsym::hash_u64(&self.bytes) }
    }
}
pub mod fs { pub use crate::vfs::{File, OpenOptions, metadata, rename, remove_file, create_dir_all, read_dir, DirEntry, Metadata}; }
pub mod io { pub use std::io::{Read, Write, Seek, SeekFrom, Error, ErrorKind, Result}; pub use crate::vbuf::BufWriter; pub mod prelude { pub use std::io::prelude::*; } }
pub mod os { pub mod unix { pub mod fs { pub use crate::vfs::FileExt; } } }
pub mod path { pub use crate::vfs::Path; }
pub mod env { pub use crate::vfs::var; pub use std::env::VarError; }
