#![allow(warnings)]
pub use std::*;
pub mod vmap;
pub mod vlock;
pub mod vclock;
pub mod vfs;
pub mod vbuf;
pub mod collections { pub use crate::vmap::HashMap; pub use std::collections::{VecDeque, BTreeMap, HashSet}; }
pub mod sync {
    pub use std::sync::{Arc, Weak};
    pub mod atomic { pub use std::sync::atomic::*; }
    pub use crate::vlock::{RwLock, Mutex, RwLockReadGuard, RwLockWriteGuard, MutexGuard};
}
pub mod time { pub use std::time::Duration; pub use crate::vclock::{Instant, SystemTime, UNIX_EPOCH}; }
pub mod thread { pub fn sleep(d: std::time::Duration) { crate::vclock::on_sleep(d); } }
pub mod fs { pub use crate::vfs::{File, OpenOptions, metadata, rename, remove_file, create_dir_all, read_dir, DirEntry, Metadata}; }
pub mod io { pub use std::io::{Read, Write, Seek, SeekFrom, Error, ErrorKind, Result}; pub use crate::vbuf::BufWriter; pub mod prelude { pub use std::io::prelude::*; } }
pub mod os { pub mod unix { pub mod fs { pub use crate::vfs::FileExt; } } }
pub mod path { pub use crate::vfs::Path; }
pub mod env { pub use crate::vfs::var; pub use std::env::VarError; }
