// model of std::io::BufWriter: same capacity / flush / drop behaviour
use std::io::{self, Write, Seek, SeekFrom};
pub struct BufWriter<W: Write> { inner: W, buf: Vec<u8>, cap: usize }
impl<W: Write> BufWriter<W> {
    pub fn new(inner: W) -> Self { BufWriter { inner, buf: Vec::new(), cap: 8192 } }
    pub fn with_capacity(cap: usize, inner: W) -> Self { BufWriter { inner, buf: Vec::new(), cap } }
    fn flush_buf(&mut self) -> io::Result<()> {
        if self.buf.len() > 0 { let b = std::mem::replace(&mut self.buf, Vec::new()); self.inner.write(&b)?; }
        Ok(())
    }
    pub fn get_ref(&self) -> &W { &self.inner }
}
impl<W: Write> Write for BufWriter<W> {
    fn write(&mut self, data: &[u8]) -> io::Result<usize> {
        if self.buf.len() + data.len() > self.cap { self.flush_buf()?; }
        if data.len() >= self.cap { return self.inner.write(data); }
        let mut j = 0; while j < data.len() { self.buf.push(data[j]); j += 1; }
        Ok(data.len())
    }
    fn flush(&mut self) -> io::Result<()> { self.flush_buf()?; self.inner.flush() }
}
impl<W: Write + Seek> Seek for BufWriter<W> {
    fn seek(&mut self, s: SeekFrom) -> io::Result<u64> { self.flush_buf()?; self.inner.seek(s) }
    fn stream_position(&mut self) -> io::Result<u64> { self.seek(SeekFrom::Current(0)) }
}
impl<W: Write> Drop for BufWriter<W> { fn drop(&mut self) { let _ = self.flush_buf(); } }
