// model of the clock: a logical counter. With SYMBOLIC_CLOCK on, every reading of SystemTime::now()
// advances by a solver-chosen amount >= 0 (ties allowed), otherwise by 1.
use std::time::Duration;
pub static mut NOW_NS: u64 = 1_000;
pub static mut SYMBOLIC_CLOCK: bool = false;
pub static mut SLEEPS: u64 = 0;
pub fn yield_point() { vsym::yield_now(); }
pub fn on_sleep(_d: Duration) { unsafe { SLEEPS += 1; } if vsym::is_cooperative() { vsym::suspend(); } else { vsym::yield_now(); } }
fn tick() -> u64 {
    unsafe {
        if SYMBOLIC_CLOCK { let d = vsym::any_u64("clock_step"); vsym::assume(d <= 1_000_000); NOW_NS += d; } else { NOW_NS += 1; }
        NOW_NS
    }
}
#[derive(Clone, Copy, Debug, PartialEq, PartialOrd)] pub struct SystemTime(u64);
pub const UNIX_EPOCH: SystemTime = SystemTime(0);
#[derive(Debug)] pub struct TimeErr;
impl SystemTime {
    pub fn now() -> SystemTime { SystemTime(tick()) }
    pub fn duration_since(&self, e: SystemTime) -> Result<Duration, TimeErr> { Ok(Duration::from_nanos(self.0 - e.0)) }
}
#[derive(Clone, Copy, Debug)] pub struct Instant(u64);
impl Instant { pub fn now() -> Instant { Instant(0) } pub fn elapsed(&self) -> Duration { Duration::from_nanos(0) } }
