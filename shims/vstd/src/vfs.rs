// in-memory file-system model with a crash switch: after `CRASH_AT` mutating ops, further mutations are ignored
use std::io::{self, Read, Write, Seek, SeekFrom};
pub struct Node { pub path: String, pub data: Vec<u8>, pub ctime: u64 }
pub static mut FS: Vec<Node> = Vec::new();
pub static mut OPS: u64 = 0;          // mutating operations applied so far
pub static mut CRASH_AT: u64 = u64::MAX; // ops with index >= CRASH_AT are dropped
pub static mut ENV: Vec<(&'static str, &'static str)> = Vec::new();
/// harness-only: exchange the whole disk content with `other` (one in-memory disk per cluster node: swap in, act, swap out)
pub fn swap_fs(other: &mut Vec<Node>) { let cur = std::mem::replace(fs(), Vec::new()); let theirs = std::mem::replace(other, cur); *fs() = theirs; }
fn fs() -> &'static mut Vec<Node> { unsafe { &mut *std::ptr::addr_of_mut!(FS) } }
fn alive() -> bool { unsafe { let ok = OPS < CRASH_AT; OPS += 1; ok } }
fn find(p: &str) -> Option<usize> { let f = fs(); let mut i = 0; while i < f.len() { if f[i].path == p { return Some(i); } i += 1; } None }
pub fn var(name: &str) -> Result<String, std::env::VarError> {
    unsafe { for (k, v) in (&*std::ptr::addr_of!(ENV)).iter() { if *k == name { return Ok(v.to_string()); } } }
    Err(std::env::VarError::NotPresent)
}
pub struct Metadata { l: u64, c: u64 }
impl Metadata { pub fn len(&self) -> u64 { self.l } pub fn created(&self) -> io::Result<u64> { Ok(self.c) } }
fn nf() -> io::Error { io::Error::from(io::ErrorKind::NotFound) }
pub fn metadata<P: AsRef<str>>(p: P) -> io::Result<Metadata> { match find(p.as_ref()) { Some(i) => Ok(Metadata { l: fs()[i].data.len() as u64, c: fs()[i].ctime }), None => Err(nf()) } }
pub fn rename<P: AsRef<str>, Q: AsRef<str>>(a: P, b: Q) -> io::Result<()> {
    match find(a.as_ref()) { None => Err(nf()), Some(i) => { if alive() { if let Some(j) = find(b.as_ref()) { if j != i { fs().remove(j); } } let i = find(a.as_ref()).unwrap(); fs()[i].path = b.as_ref().to_string(); } Ok(()) } }
}
pub fn remove_file<P: AsRef<str>>(a: P) -> io::Result<()> { match find(a.as_ref()) { None => Err(nf()), Some(i) => { if alive() { fs().remove(i); } Ok(()) } } }
pub fn create_dir_all<P: AsRef<str>>(_a: P) -> io::Result<()> { Ok(()) }
pub struct OsName { s: String }
impl OsName { pub fn into_string(self) -> Result<String, ()> { Ok(self.s) } }
pub struct PathBuf { s: String }
impl PathBuf { pub fn to_str(&self) -> Option<&str> { Some(&self.s) } }
pub struct DirEntry { p: String }
impl DirEntry {
    pub fn file_name(&self) -> OsName { let mut i = self.p.len(); let b = self.p.as_bytes(); while i > 0 && b[i - 1] != b'/' { i -= 1; } OsName { s: self.p[i..].to_string() } }
    pub fn path(&self) -> PathBuf { PathBuf { s: self.p.clone() } }
    pub fn metadata(&self) -> io::Result<Metadata> { metadata(&self.p) }
}
pub fn read_dir<P: AsRef<str>>(d: P) -> io::Result<std::vec::IntoIter<io::Result<DirEntry>>> {
    let pre = format!("{}/", d.as_ref());
    let mut v = Vec::new();
    for n in fs().iter() { if n.path.starts_with(&pre) && !n.path[pre.len()..].contains('/') { v.push(Ok(DirEntry { p: n.path.clone() })); } }
    Ok(v.into_iter())
}
pub struct Path { s: String }
impl Path { pub fn new<S: AsRef<str> + ?Sized>(s: &S) -> Path { Path { s: s.as_ref().to_string() } }
    pub fn exists(&self) -> bool {
        if find(&self.s).is_some() { return true; }
        let pre = format!("{}/", &self.s); let f = fs(); let mut i = 0;
        while i < f.len() { if f[i].path.starts_with(&pre) { return true; } i += 1; }
        false } }
pub struct OpenOptions { r: bool, w: bool, a: bool, c: bool }
impl OpenOptions {
    pub fn new() -> Self { OpenOptions { r: false, w: false, a: false, c: false } }
    pub fn read(&mut self, b: bool) -> &mut Self { self.r = b; self } pub fn write(&mut self, b: bool) -> &mut Self { self.w = b; self }
    pub fn append(&mut self, b: bool) -> &mut Self { self.a = b; self } pub fn create(&mut self, b: bool) -> &mut Self { self.c = b; self }
    pub fn open<P: AsRef<str>>(&self, p: P) -> io::Result<File> {
        let p = p.as_ref();
        if find(p).is_none() { if !self.c { return Err(nf()); } if alive() { let t = unsafe { OPS }; fs().push(Node { path: p.to_string(), data: Vec::new(), ctime: t }); } }
        Ok(File { path: p.to_string(), pos: 0, append: self.a })
    }
}
pub struct File { path: String, pos: u64, append: bool }
impl File {
    pub fn open<P: AsRef<str>>(p: P) -> io::Result<File> { OpenOptions::new().read(true).open(p) }
    pub fn metadata(&self) -> io::Result<Metadata> { metadata(&self.path) }
    /// every write of the model reaches the "disk" at once: syncing adds nothing (and moves nothing out of a BufWriter)
    pub fn sync_all(&self) -> io::Result<()> { Ok(()) }
    pub fn sync_data(&self) -> io::Result<()> { Ok(()) }
    pub fn set_len(&self, n: u64) -> io::Result<()> { if alive() { if let Some(i) = find(&self.path) { let d = &mut fs()[i].data; while d.len() as u64 > n { d.pop(); } while (d.len() as u64) < n { d.push(0); } } } Ok(()) }
    fn put(&self, buf: &[u8], at: u64) { if let Some(i) = find(&self.path) { let d = &mut fs()[i].data; let at = at as usize; while d.len() < at + buf.len() { d.push(0); } let mut j = 0; while j < buf.len() { d[at + j] = buf[j]; j += 1; } } }
}
impl Read for File { fn read(&mut self, buf: &mut [u8]) -> io::Result<usize> {
    match find(&self.path) { None => Ok(0), Some(i) => { let d = &fs()[i].data; let p = self.pos as usize; if p >= d.len() { return Ok(0); } let n = if buf.len() < d.len() - p { buf.len() } else { d.len() - p }; let mut j = 0; while j < n { buf[j] = d[p + j]; j += 1; } self.pos += n as u64; Ok(n) } } } }
impl Write for File {
    fn write(&mut self, buf: &[u8]) -> io::Result<usize> {
        let at = if self.append { match find(&self.path) { Some(i) => fs()[i].data.len() as u64, None => 0 } } else { self.pos };
        if alive() { self.put(buf, at); } self.pos = at + buf.len() as u64; Ok(buf.len()) }
    fn flush(&mut self) -> io::Result<()> { Ok(()) }
}
impl Seek for File { fn seek(&mut self, s: SeekFrom) -> io::Result<u64> {
    let len = match find(&self.path) { Some(i) => fs()[i].data.len() as u64, None => 0 };
    self.pos = match s { SeekFrom::Start(n) => n, SeekFrom::End(n) => (len as i64 + n) as u64, SeekFrom::Current(n) => (self.pos as i64 + n) as u64 }; Ok(self.pos) }
    fn stream_position(&mut self) -> io::Result<u64> { Ok(self.pos) } }
pub trait FileExt { fn write_at(&self, buf: &[u8], off: u64) -> io::Result<usize>; }
impl FileExt for File { fn write_at(&self, buf: &[u8], off: u64) -> io::Result<usize> { if alive() { self.put(buf, off); } Ok(buf.len()) } }
