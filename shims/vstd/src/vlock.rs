// lock models: hold-state counters; every acquisition is a scheduler yield point unless the harness has marked the
// lock "quiet" (partial-order reduction). A quiet lock in checked mode (1) verifies that it really is uncontended:
// if one thread write-locks it and another thread touches it in the same phase, the check `por.quiet-lock-conflict` fails.
use std::cell::{Cell, UnsafeCell};
use std::ops::{Deref, DerefMut};
#[derive(Debug)] pub struct Poison;
impl std::fmt::Display for Poison { fn fmt(&self, f: &mut std::fmt::Formatter<'_>) -> std::fmt::Result { write!(f, "poisoned lock") } }
pub struct Quiet { mode: Cell<u8>, readers: Cell<u64>, writers: Cell<u64> }
impl Quiet {
    fn new() -> Quiet { Quiet { mode: Cell::new(0), readers: Cell::new(0), writers: Cell::new(0) } }
    fn set(&self, m: u8) { self.mode.set(m); self.readers.set(0); self.writers.set(0); }
    fn on_acquire(&self, write: bool) {
        let m = self.mode.get();
        if m == 0 { crate::vclock::yield_point(); return; }
        if m == 1 {
            let bit = 1u64 << (vsym::current_tid() as u64);
            if write { self.writers.set(self.writers.get() | bit); } else { self.readers.set(self.readers.get() | bit); }
            let w = self.writers.get(); let all = w | self.readers.get();
            if w != 0 && (all & (all - 1)) != 0 { vsym::check("por.quiet-lock-conflict", false); }
        }
    }
}
pub struct RwLock<T> { v: UnsafeCell<T>, st: Cell<isize>, q: Quiet }
unsafe impl<T> Sync for RwLock<T> {} unsafe impl<T> Send for RwLock<T> {}
pub struct RwLockReadGuard<'a, T> { l: &'a RwLock<T> }
pub struct RwLockWriteGuard<'a, T> { l: &'a RwLock<T> }
impl<T> RwLock<T> {
    pub fn new(t: T) -> Self { RwLock { v: UnsafeCell::new(t), st: Cell::new(0), q: Quiet::new() } }
    /// harness-only: 0 = yield point (default), 1 = no yield, contention checked, 2 = no yield, unchecked (state that no property observes)
    pub fn set_quiet(&self, mode: u8) { self.q.set(mode); }
    pub fn read(&self) -> Result<RwLockReadGuard<'_, T>, Poison> {
        self.q.on_acquire(false);
        while self.st.get() < 0 { vsym::block_on_lock(); }
        self.st.set(self.st.get() + 1); Ok(RwLockReadGuard { l: self })
    }
    pub fn try_read(&self) -> Result<RwLockReadGuard<'_, T>, Poison> { self.q.on_acquire(false); if self.st.get() < 0 { return Err(Poison); } self.st.set(self.st.get() + 1); Ok(RwLockReadGuard { l: self }) }
    pub fn try_write(&self) -> Result<RwLockWriteGuard<'_, T>, Poison> { self.q.on_acquire(true); if self.st.get() != 0 { return Err(Poison); } self.st.set(-1); Ok(RwLockWriteGuard { l: self }) }
    pub fn get_mut(&mut self) -> Result<&mut T, Poison> { Ok(unsafe { &mut *self.v.get() }) }
    pub fn into_inner(self) -> Result<T, Poison> { Ok(self.v.into_inner()) }
    pub fn is_poisoned(&self) -> bool { false }
    pub fn write(&self) -> Result<RwLockWriteGuard<'_, T>, Poison> {
        self.q.on_acquire(true);
        while self.st.get() != 0 { vsym::block_on_lock(); }
        self.st.set(-1); Ok(RwLockWriteGuard { l: self })
    }
}
impl<'a, T> Deref for RwLockReadGuard<'a, T> { type Target = T; fn deref(&self) -> &T { unsafe { &*self.l.v.get() } } }
impl<'a, T> Deref for RwLockWriteGuard<'a, T> { type Target = T; fn deref(&self) -> &T { unsafe { &*self.l.v.get() } } }
impl<'a, T> DerefMut for RwLockWriteGuard<'a, T> { fn deref_mut(&mut self) -> &mut T { unsafe { &mut *self.l.v.get() } } }
impl<'a, T> Drop for RwLockReadGuard<'a, T> { fn drop(&mut self) { self.l.st.set(self.l.st.get() - 1); } }
impl<'a, T> Drop for RwLockWriteGuard<'a, T> { fn drop(&mut self) { self.l.st.set(0); } }
pub struct Mutex<T> { v: UnsafeCell<T>, held: Cell<bool>, q: Quiet }
unsafe impl<T> Sync for Mutex<T> {} unsafe impl<T> Send for Mutex<T> {}
pub struct MutexGuard<'a, T> { l: &'a Mutex<T> }
impl<T> Mutex<T> {
    pub fn new(t: T) -> Self { Mutex { v: UnsafeCell::new(t), held: Cell::new(false), q: Quiet::new() } }
    pub fn set_quiet(&self, mode: u8) { self.q.set(mode); }
    pub fn try_lock(&self) -> Result<MutexGuard<'_, T>, Poison> { self.q.on_acquire(true); if self.held.get() { return Err(Poison); } self.held.set(true); Ok(MutexGuard { l: self }) }
    pub fn get_mut(&mut self) -> Result<&mut T, Poison> { Ok(unsafe { &mut *self.v.get() }) }
    pub fn into_inner(self) -> Result<T, Poison> { Ok(self.v.into_inner()) }
    pub fn is_poisoned(&self) -> bool { false }
    pub fn lock(&self) -> Result<MutexGuard<'_, T>, Poison> {
        self.q.on_acquire(true);
        while self.held.get() { vsym::block_on_lock(); }
        self.held.set(true); Ok(MutexGuard { l: self })
    }
}
impl<'a, T> Deref for MutexGuard<'a, T> { type Target = T; fn deref(&self) -> &T { unsafe { &*self.l.v.get() } } }
impl<'a, T> DerefMut for MutexGuard<'a, T> { fn deref_mut(&mut self) -> &mut T { unsafe { &mut *self.l.v.get() } } }
impl<'a, T> Drop for MutexGuard<'a, T> { fn drop(&mut self) { self.l.held.set(false); } }
