// single-threaded lock models: track hold state so self-deadlock is an assertion failure
use std::cell::{Cell, UnsafeCell};
use std::ops::{Deref, DerefMut};
#[derive(Debug)] pub struct Poison;
pub struct RwLock<T> { v: UnsafeCell<T>, st: Cell<isize> }
unsafe impl<T> Sync for RwLock<T> {} unsafe impl<T> Send for RwLock<T> {}
pub struct RwLockReadGuard<'a, T> { l: &'a RwLock<T> }
pub struct RwLockWriteGuard<'a, T> { l: &'a RwLock<T> }
impl<T> RwLock<T> {
    pub fn new(t: T) -> Self { RwLock { v: UnsafeCell::new(t), st: Cell::new(0) } }
    pub fn read(&self) -> Result<RwLockReadGuard<'_, T>, Poison> { crate::vclock::yield_point(); assert!(self.st.get() >= 0, "read while write-held: deadlock"); self.st.set(self.st.get() + 1); Ok(RwLockReadGuard { l: self }) }
    pub fn write(&self) -> Result<RwLockWriteGuard<'_, T>, Poison> { crate::vclock::yield_point(); assert!(self.st.get() == 0, "write while held: deadlock"); self.st.set(-1); Ok(RwLockWriteGuard { l: self }) }
}
impl<'a, T> Deref for RwLockReadGuard<'a, T> { type Target = T; fn deref(&self) -> &T { unsafe { &*self.l.v.get() } } }
impl<'a, T> Deref for RwLockWriteGuard<'a, T> { type Target = T; fn deref(&self) -> &T { unsafe { &*self.l.v.get() } } }
impl<'a, T> DerefMut for RwLockWriteGuard<'a, T> { fn deref_mut(&mut self) -> &mut T { unsafe { &mut *self.l.v.get() } } }
impl<'a, T> Drop for RwLockReadGuard<'a, T> { fn drop(&mut self) { self.l.st.set(self.l.st.get() - 1); } }
impl<'a, T> Drop for RwLockWriteGuard<'a, T> { fn drop(&mut self) { self.l.st.set(0); } }
pub struct Mutex<T> { v: UnsafeCell<T>, held: Cell<bool> }
unsafe impl<T> Sync for Mutex<T> {} unsafe impl<T> Send for Mutex<T> {}
pub struct MutexGuard<'a, T> { l: &'a Mutex<T> }
impl<T> Mutex<T> {
    pub fn new(t: T) -> Self { Mutex { v: UnsafeCell::new(t), held: Cell::new(false) } }
    pub fn lock(&self) -> Result<MutexGuard<'_, T>, Poison> { crate::vclock::yield_point(); assert!(!self.held.get(), "mutex re-lock: deadlock"); self.held.set(true); Ok(MutexGuard { l: self }) }
}
impl<'a, T> Deref for MutexGuard<'a, T> { type Target = T; fn deref(&self) -> &T { unsafe { &*self.l.v.get() } } }
impl<'a, T> DerefMut for MutexGuard<'a, T> { fn deref_mut(&mut self) -> &mut T { unsafe { &mut *self.l.v.get() } } }
impl<'a, T> Drop for MutexGuard<'a, T> { fn drop(&mut self) { self.l.held.set(false); } }
