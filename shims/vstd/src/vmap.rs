// association-list model of std::collections::HashMap (same observable API, insertion-ordered iteration)
use std::borrow::Borrow;
#[derive(Clone, Debug)]
pub struct HashMap<K, V> { pub items: Vec<(K, V)> }
impl<K: Eq, V> HashMap<K, V> {
    pub fn new() -> Self { HashMap { items: Vec::new() } }
    pub fn with_capacity(_c: usize) -> Self { Self::new() }
    fn pos<Q: ?Sized + Eq>(&self, k: &Q) -> Option<usize> where K: Borrow<Q> {
        let mut i = 0;
        while i < self.items.len() { if self.items[i].0.borrow() == k { return Some(i); } i += 1; }
        None
    }
    pub fn get<Q: ?Sized + Eq>(&self, k: &Q) -> Option<&V> where K: Borrow<Q> { match self.pos(k) { Some(i) => Some(&self.items[i].1), None => None } }
    pub fn get_mut<Q: ?Sized + Eq>(&mut self, k: &Q) -> Option<&mut V> where K: Borrow<Q> { match self.pos(k) { Some(i) => Some(&mut self.items[i].1), None => None } }
    pub fn contains_key<Q: ?Sized + Eq>(&self, k: &Q) -> bool where K: Borrow<Q> { self.pos(k).is_some() }
    pub fn insert(&mut self, k: K, v: V) -> Option<V> {
        match self.pos(&k) { Some(i) => Some(std::mem::replace(&mut self.items[i].1, v)), None => { self.items.push((k, v)); None } }
    }
    pub fn remove<Q: ?Sized + Eq>(&mut self, k: &Q) -> Option<V> where K: Borrow<Q> { match self.pos(k) { Some(i) => Some(self.items.remove(i).1), None => None } }
    pub fn len(&self) -> usize { self.items.len() }
    pub fn is_empty(&self) -> bool { self.items.is_empty() }
    pub fn iter(&self) -> Iter<'_, K, V> { Iter::over(&self.items) }
    pub fn keys(&self) -> Keys<'_, K, V> { Keys { it: self.items.iter() } }
    pub fn values(&self) -> Values<'_, K, V> { Values { it: self.items.iter() } }
    pub fn clear(&mut self) { self.items.clear() }
}
/// iteration order of a real HashMap is unspecified: iteration starts at a rotation offset that a harness may set
/// (ITER_ROT, default 0 = insertion order); lookups are unaffected
pub static mut ITER_ROT: usize = 0;
pub struct Iter<'a, K, V> { v: &'a Vec<(K, V)>, i: usize, r: usize }
impl<'a, K, V> Iter<'a, K, V> { fn over(v: &'a Vec<(K, V)>) -> Self { let n = v.len(); Iter { v, i: 0, r: if n == 0 { 0 } else { (unsafe { ITER_ROT }) % n } } } }
impl<'a, K, V> Iterator for Iter<'a, K, V> { type Item = (&'a K, &'a V); fn next(&mut self) -> Option<Self::Item> { let n = self.v.len(); if self.i >= n { return None; } let kv = &self.v[(self.i + self.r) % n]; self.i += 1; Some((&kv.0, &kv.1)) } }
impl<'a, K, V> Clone for Iter<'a, K, V> { fn clone(&self) -> Self { Iter { v: self.v, i: self.i, r: self.r } } }
pub struct Keys<'a, K, V> { it: std::slice::Iter<'a, (K, V)> }
impl<'a, K, V> Iterator for Keys<'a, K, V> { type Item = &'a K; fn next(&mut self) -> Option<&'a K> { self.it.next().map(|kv| &kv.0) } }
impl<'a, K, V> ExactSizeIterator for Keys<'a, K, V> { fn len(&self) -> usize { self.it.len() } }
pub struct Values<'a, K, V> { it: std::slice::Iter<'a, (K, V)> }
impl<'a, K, V> Iterator for Values<'a, K, V> { type Item = &'a V; fn next(&mut self) -> Option<&'a V> { self.it.next().map(|kv| &kv.1) } }
impl<'a, K, V> IntoIterator for &'a HashMap<K, V> { type Item = (&'a K, &'a V); type IntoIter = Iter<'a, K, V>; fn into_iter(self) -> Iter<'a, K, V> { Iter::over(&self.items) } }
impl<K, V> IntoIterator for HashMap<K, V> { type Item = (K, V); type IntoIter = std::vec::IntoIter<(K, V)>; fn into_iter(self) -> Self::IntoIter { self.items.into_iter() } }
impl<K: Eq, V> std::iter::FromIterator<(K, V)> for HashMap<K, V> { fn from_iter<I: IntoIterator<Item = (K, V)>>(it: I) -> Self { let mut m = HashMap::new(); for (k, v) in it { m.insert(k, v); } m } }
// ---- wider API surface (so that realistic edits of the repository still compile against the model)
impl<K: Eq, V> HashMap<K, V> {
    pub fn entry(&mut self, k: K) -> Entry<'_, K, V> {
        match self.pos(&k) { Some(i) => Entry::Occupied(OccupiedEntry { m: self, i }), None => Entry::Vacant(VacantEntry { m: self, k }) }
    }
    pub fn get_key_value<Q: ?Sized + Eq>(&self, k: &Q) -> Option<(&K, &V)> where K: Borrow<Q> { match self.pos(k) { Some(i) => Some((&self.items[i].0, &self.items[i].1)), None => None } }
    pub fn remove_entry<Q: ?Sized + Eq>(&mut self, k: &Q) -> Option<(K, V)> where K: Borrow<Q> { match self.pos(k) { Some(i) => Some(self.items.remove(i)), None => None } }
    pub fn values_mut(&mut self) -> ValuesMut<'_, K, V> { ValuesMut { it: self.items.iter_mut() } }
    pub fn iter_mut(&mut self) -> IterMut<'_, K, V> { IterMut { it: self.items.iter_mut() } }
    pub fn retain<F: FnMut(&K, &mut V) -> bool>(&mut self, mut f: F) {
        let mut i = 0;
        while i < self.items.len() { let keep = { let kv = &mut self.items[i]; f(&kv.0, &mut kv.1) }; if keep { i += 1; } else { self.items.remove(i); } }
    }
    pub fn drain(&mut self) -> std::vec::IntoIter<(K, V)> { std::mem::replace(&mut self.items, Vec::new()).into_iter() }
    pub fn into_keys(self) -> std::vec::IntoIter<K> { let mut v = Vec::new(); for (k, _) in self.items { v.push(k); } v.into_iter() }
    pub fn into_values(self) -> std::vec::IntoIter<V> { let mut v = Vec::new(); for (_, x) in self.items { v.push(x); } v.into_iter() }
    pub fn capacity(&self) -> usize { self.items.len() }
    pub fn reserve(&mut self, _n: usize) {}
    pub fn shrink_to_fit(&mut self) {}
}
impl<K: Eq, V> Default for HashMap<K, V> { fn default() -> Self { HashMap::new() } }
impl<K: Eq, V> Extend<(K, V)> for HashMap<K, V> { fn extend<I: IntoIterator<Item = (K, V)>>(&mut self, it: I) { for (k, v) in it { self.insert(k, v); } } }
impl<K: Eq, V: PartialEq> PartialEq for HashMap<K, V> {
    fn eq(&self, o: &Self) -> bool {
        if self.items.len() != o.items.len() { return false; }
        let mut i = 0;
        while i < self.items.len() { match o.get(&self.items[i].0) { Some(v) => { if *v != self.items[i].1 { return false; } } None => return false } i += 1; }
        true
    }
}
impl<K: Eq + Borrow<Q>, Q: ?Sized + Eq, V> std::ops::Index<&Q> for HashMap<K, V> { type Output = V; fn index(&self, k: &Q) -> &V { self.get(k).expect("no entry found for key") } }
pub enum Entry<'a, K, V> { Occupied(OccupiedEntry<'a, K, V>), Vacant(VacantEntry<'a, K, V>) }
pub struct OccupiedEntry<'a, K, V> { m: &'a mut HashMap<K, V>, i: usize }
pub struct VacantEntry<'a, K, V> { m: &'a mut HashMap<K, V>, k: K }
impl<'a, K, V> OccupiedEntry<'a, K, V> {
    pub fn get(&self) -> &V { &self.m.items[self.i].1 }
    pub fn get_mut(&mut self) -> &mut V { &mut self.m.items[self.i].1 }
    pub fn into_mut(self) -> &'a mut V { &mut self.m.items[self.i].1 }
    pub fn insert(&mut self, v: V) -> V { std::mem::replace(&mut self.m.items[self.i].1, v) }
    pub fn remove(self) -> V { self.m.items.remove(self.i).1 }
    pub fn key(&self) -> &K { &self.m.items[self.i].0 }
}
impl<'a, K, V> VacantEntry<'a, K, V> {
    pub fn insert(self, v: V) -> &'a mut V { self.m.items.push((self.k, v)); let n = self.m.items.len(); &mut self.m.items[n - 1].1 }
    pub fn key(&self) -> &K { &self.k }
}
impl<'a, K, V> Entry<'a, K, V> {
    pub fn or_insert(self, v: V) -> &'a mut V { match self { Entry::Occupied(o) => o.into_mut(), Entry::Vacant(e) => e.insert(v) } }
    pub fn or_insert_with<F: FnOnce() -> V>(self, f: F) -> &'a mut V { match self { Entry::Occupied(o) => o.into_mut(), Entry::Vacant(e) => e.insert(f()) } }
    pub fn or_default(self) -> &'a mut V where V: Default { match self { Entry::Occupied(o) => o.into_mut(), Entry::Vacant(e) => e.insert(V::default()) } }
    pub fn and_modify<F: FnOnce(&mut V)>(self, f: F) -> Self { match self { Entry::Occupied(mut o) => { f(o.get_mut()); Entry::Occupied(o) } Entry::Vacant(e) => Entry::Vacant(e) } }
    pub fn key(&self) -> &K { match self { Entry::Occupied(o) => o.key(), Entry::Vacant(e) => e.key() } }
}
pub struct ValuesMut<'a, K, V> { it: std::slice::IterMut<'a, (K, V)> }
impl<'a, K, V> Iterator for ValuesMut<'a, K, V> { type Item = &'a mut V; fn next(&mut self) -> Option<&'a mut V> { self.it.next().map(|kv| &mut kv.1) } }
pub struct IterMut<'a, K, V> { it: std::slice::IterMut<'a, (K, V)> }
impl<'a, K, V> Iterator for IterMut<'a, K, V> { type Item = (&'a K, &'a mut V); fn next(&mut self) -> Option<Self::Item> { self.it.next().map(|kv| (&kv.0, &mut kv.1)) } }
impl<'a, K, V> IntoIterator for &'a mut HashMap<K, V> { type Item = (&'a K, &'a mut V); type IntoIter = IterMut<'a, K, V>; fn into_iter(self) -> IterMut<'a, K, V> { IterMut { it: self.items.iter_mut() } } }
impl<'a, K, V> ExactSizeIterator for Iter<'a, K, V> { fn len(&self) -> usize { self.v.len() - self.i } }
impl<'a, K, V> ExactSizeIterator for Values<'a, K, V> { fn len(&self) -> usize { self.it.len() } }
impl<'a, K, V> Clone for Keys<'a, K, V> { fn clone(&self) -> Self { Keys { it: self.it.clone() } } }
impl<'a, K, V> Clone for Values<'a, K, V> { fn clone(&self) -> Self { Values { it: self.it.clone() } } }
