// association-list model of std::collections::HashMap (same observable API, insertion-ordered iteration)
use std::borrow::Borrow;
#[derive(Clone, Debug)]
pub struct HashMap<K, V> { pub items: Vec<(K, V)> }
impl<K: Eq, V> HashMap<K, V> {
    pub fn new() -> Self { HashMap { items: Vec::new() } }
    pub fn with_capacity(_c: usize) -> Self { Self::new() }
    fn pos<Q: ?Sized + Eq>(&self, k: &Q) -> Option<usize> where K: Borrow<Q> {
        let mut i = 0;
        while i < self.items.len() { if self.items[i].0.borrow() == k { return Some(i); } i += 1; }
        None
    }
    pub fn get<Q: ?Sized + Eq>(&self, k: &Q) -> Option<&V> where K: Borrow<Q> { match self.pos(k) { Some(i) => Some(&self.items[i].1), None => None } }
    pub fn get_mut<Q: ?Sized + Eq>(&mut self, k: &Q) -> Option<&mut V> where K: Borrow<Q> { match self.pos(k) { Some(i) => Some(&mut self.items[i].1), None => None } }
    pub fn contains_key<Q: ?Sized + Eq>(&self, k: &Q) -> bool where K: Borrow<Q> { self.pos(k).is_some() }
    pub fn insert(&mut self, k: K, v: V) -> Option<V> {
        match self.pos(&k) { Some(i) => Some(std::mem::replace(&mut self.items[i].1, v)), None => { self.items.push((k, v)); None } }
    }
    pub fn remove<Q: ?Sized + Eq>(&mut self, k: &Q) -> Option<V> where K: Borrow<Q> { match self.pos(k) { Some(i) => Some(self.items.remove(i).1), None => None } }
    pub fn len(&self) -> usize { self.items.len() }
    pub fn is_empty(&self) -> bool { self.items.is_empty() }
    pub fn iter(&self) -> Iter<'_, K, V> { Iter { it: self.items.iter() } }
    pub fn keys(&self) -> Keys<'_, K, V> { Keys { it: self.items.iter() } }
    pub fn values(&self) -> Values<'_, K, V> { Values { it: self.items.iter() } }
    pub fn clear(&mut self) { self.items.clear() }
}
pub struct Iter<'a, K, V> { it: std::slice::Iter<'a, (K, V)> }
impl<'a, K, V> Iterator for Iter<'a, K, V> { type Item = (&'a K, &'a V); fn next(&mut self) -> Option<Self::Item> { self.it.next().map(|kv| (&kv.0, &kv.1)) } }
impl<'a, K, V> Clone for Iter<'a, K, V> { fn clone(&self) -> Self { Iter { it: self.it.clone() } } }
pub struct Keys<'a, K, V> { it: std::slice::Iter<'a, (K, V)> }
impl<'a, K, V> Iterator for Keys<'a, K, V> { type Item = &'a K; fn next(&mut self) -> Option<&'a K> { self.it.next().map(|kv| &kv.0) } }
impl<'a, K, V> ExactSizeIterator for Keys<'a, K, V> { fn len(&self) -> usize { self.it.len() } }
pub struct Values<'a, K, V> { it: std::slice::Iter<'a, (K, V)> }
impl<'a, K, V> Iterator for Values<'a, K, V> { type Item = &'a V; fn next(&mut self) -> Option<&'a V> { self.it.next().map(|kv| &kv.1) } }
impl<'a, K, V> IntoIterator for &'a HashMap<K, V> { type Item = (&'a K, &'a V); type IntoIter = Iter<'a, K, V>; fn into_iter(self) -> Iter<'a, K, V> { Iter { it: self.items.iter() } } }
impl<K, V> IntoIterator for HashMap<K, V> { type Item = (K, V); type IntoIter = std::vec::IntoIter<(K, V)>; fn into_iter(self) -> Self::IntoIter { self.items.into_iter() } }
impl<K: Eq, V> std::iter::FromIterator<(K, V)> for HashMap<K, V> { fn from_iter<I: IntoIterator<Item = (K, V)>>(it: I) -> Self { let mut m = HashMap::new(); for (k, v) in it { m.insert(k, v); } m } }
