//! Harness intrinsics. Three consumers:
//!  * engine M (mirsym) never executes these bodies: every function here has a native model;
//!  * native replay: the bodies below read the recorded counterexample (file named by
//!    VSYM_REPLAY, one value per line, in call order) and report failed checks on stdout;
//!  * Kani twins use their own `kani::any()` and do not link this crate.
use std::cell::RefCell;
use std::sync::{Arc, Condvar, Mutex};

thread_local! { static TID: RefCell<usize> = RefCell::new(0); }

struct Replay { vals: Vec<(String, String)>, pos: usize, sched: Vec<usize>, spos: usize }
static STATE: Mutex<Option<Replay>> = Mutex::new(None);

fn unescape(s: &str) -> String {
    // \u{hex} escapes, as written by the engine
    let mut out = String::new();
    let b: Vec<char> = s.chars().collect();
    let mut i = 0;
    while i < b.len() {
        if b[i] == '\\' && i + 2 < b.len() && b[i + 1] == 'u' && b[i + 2] == '{' {
            let mut j = i + 3; let mut h = String::new();
            while b[j] != '}' { h.push(b[j]); j += 1; }
            out.push(char::from_u32(u32::from_str_radix(&h, 16).unwrap()).unwrap());
            i = j + 1;
        } else { out.push(b[i]); i += 1; }
    }
    out
}
fn load() -> Replay {
    let p = std::env::var("VSYM_REPLAY").expect("VSYM_REPLAY not set");
    let txt = std::fs::read_to_string(p).expect("replay file");
    let mut vals = Vec::new(); let mut sched = Vec::new();
    for l in txt.lines() {
        if l.is_empty() { continue; }
        let mut it = l.splitn(2, ' ');
        let k = it.next().unwrap().to_string(); let v = it.next().unwrap_or("").to_string();
        if k == "sched" { sched.push(v.parse().unwrap()); } else { vals.push((k, v)); }
    }
    Replay { vals, pos: 0, sched, spos: 0 }
}
fn next_val(kind: &str) -> String {
    let mut g = STATE.lock().unwrap();
    if g.is_none() { *g = Some(load()); }
    let r = g.as_mut().unwrap();
    if r.pos >= r.vals.len() { println!("REPLAY-DIVERGED: ran out of recorded values at {}", kind); std::process::exit(3); }
    let (k, v) = r.vals[r.pos].clone(); r.pos += 1;
    if k != kind { println!("REPLAY-DIVERGED: expected {} got {}", kind, k); std::process::exit(3); }
    v
}
pub fn any_i32(_name: &str) -> i32 { next_val("i32").parse().unwrap() }
pub fn any_i64(_name: &str) -> i64 { next_val("i64").parse().unwrap() }
pub fn any_u8(_name: &str) -> u8 { next_val("u8").parse().unwrap() }
pub fn any_u64(_name: &str) -> u64 { next_val("u64").parse().unwrap() }
/// uninterpreted hash: one solver-chosen u64 per distinct byte content (same content, same digest)
static HASHES: Mutex<Vec<(Vec<u8>, u64)>> = Mutex::new(Vec::new());
pub fn hash_u64(bytes: &[u8]) -> u64 {
    { let g = HASHES.lock().unwrap(); for (b, h) in g.iter() { if b.as_slice() == bytes { return *h; } } }
    let h: u64 = next_val("u64").parse().unwrap();
    HASHES.lock().unwrap().push((bytes.to_vec(), h)); h
}
/// ends the current (modelled) thread: unwinds to the enclosing `run_until_end`
pub struct EndThread;
pub fn end_thread() -> ! { std::panic::resume_unwind(Box::new(EndThread)) }
/// runs `f`; None when it ended through `end_thread` (a thread that would block for ever)
pub fn run_until_end<T, F: FnOnce() -> T>(f: F) -> Option<T> {
    match std::panic::catch_unwind(std::panic::AssertUnwindSafe(f)) {
        Ok(v) => Some(v),
        Err(p) => { if p.is::<EndThread>() { None } else { std::panic::resume_unwind(p) } }
    }
}
pub fn any_u128(_name: &str) -> u128 { next_val("u128").parse().unwrap() }
pub fn any_usize(_name: &str) -> usize { next_val("usize").parse().unwrap() }
pub fn any_bool(_name: &str) -> bool { next_val("bool") == "true" }
/// symbolic string of at most `max` characters, printable ASCII (0x20..0x7e)
pub fn any_str(_name: &str, _max: usize) -> String { unescape(&next_val("str")) }
/// symbolic token: at most `max` printable ASCII characters, none of them a space, ';' or '|'
pub fn any_token(_name: &str, _max: usize) -> String { unescape(&next_val("str")) }
/// symbolic string of exactly `len` printable ASCII characters without space, ';' or '|'
pub fn any_ascii(_name: &str, _len: usize) -> String { unescape(&next_val("str")) }
/// solver-chosen integer in 0..n
pub fn choice(_name: &str, _n: usize) -> usize { next_val("choice").parse().unwrap() }
/// tier parameter (concrete; provided by the check driver)
pub fn param(name: &str, default: usize) -> usize {
    match std::env::var(format!("VSYM_PARAM_{}", name)) { Ok(v) => v.parse().unwrap(), Err(_) => default }
}
pub fn assume(c: bool) { if !c { println!("REPLAY-DIVERGED: assumption false"); std::process::exit(3); } }
pub fn check(id: &str, c: bool) { if !c { println!("CHECK-FAILED {}", id); } }
pub fn cover(id: &str, c: bool) { if c { println!("COVERED {}", id); } }
pub fn tag(t: &str) { println!("TAG {}", t); }
pub fn tag_i(t: &str, v: i64) { println!("TAG {}={}", t, v); }
/// declares that a panic raised from here on, before `end_expect_panic`, is an expected outcome
pub fn expect_panic(_id: &str) {}

// ---- cooperative threads (native replay: OS threads running one at a time in the recorded order)
struct Baton { cur: usize, done: Vec<bool>, waiting: Vec<Option<usize>> }
static BATON: Mutex<Option<Arc<(Mutex<Baton>, Condvar)>>> = Mutex::new(None);
fn baton() -> Arc<(Mutex<Baton>, Condvar)> {
    let mut g = BATON.lock().unwrap();
    if g.is_none() { *g = Some(Arc::new((Mutex::new(Baton { cur: 0, done: vec![false], waiting: vec![None] }), Condvar::new()))); }
    g.as_ref().unwrap().clone()
}
fn me() -> usize { TID.with(|t| *t.borrow()) }
fn runnable(b: &Baton) -> Vec<usize> {
    let mut out = Vec::new();
    for t in 0..b.done.len() {
        if b.done[t] { continue; }
        if let Some(w) = b.waiting[t] { if !b.done[w] { continue; } }
        out.push(t);
    }
    out
}
fn next_sched() -> usize {
    let mut g = STATE.lock().unwrap();
    if g.is_none() { *g = Some(load()); }
    let st = g.as_mut().unwrap();
    let d = if st.spos < st.sched.len() { st.sched[st.spos] } else { 0 };
    st.spos += 1; d
}
fn pick_from(r: &Vec<usize>) -> Option<usize> {
    if r.is_empty() { return None; }
    if r.len() == 1 { return Some(r[0]); }
    let d = next_sched();
    Some(r[if d < r.len() { d } else { 0 }])
}
fn pick(b: &Baton) -> Option<usize> { pick_from(&runnable(b)) }
pub struct Handle<T>(usize, Arc<Mutex<Option<T>>>);
pub fn spawn<T: Send + 'static, F: FnOnce() -> T + Send + 'static>(f: F) -> Handle<T> {
    let bt = baton();
    let tid = { let mut b = bt.0.lock().unwrap(); b.done.push(false); b.waiting.push(None); b.done.len() - 1 };
    let slot = Arc::new(Mutex::new(None)); let slot2 = slot.clone(); let bt2 = bt.clone();
    std::thread::spawn(move || {
        TID.with(|t| *t.borrow_mut() = tid);
        { let mut b = bt2.0.lock().unwrap(); while b.cur != tid { b = bt2.1.wait(b).unwrap(); } }
        let r = f();
        *slot2.lock().unwrap() = Some(r);
        let mut b = bt2.0.lock().unwrap();
        b.done[tid] = true;
        if is_cooperative() { b.cur = 0; } else { match pick(&b) { Some(n) => b.cur = n, None => b.cur = 0 } }
        bt2.1.notify_all();
    });
    Handle(tid, slot)
}
pub fn current_tid() -> usize { me() }
/// called by the lock shims when the lock is held incompatibly: hand over to another runnable thread (deadlock if none)
pub fn block_on_lock() {
    let bt = baton(); let m = me();
    let mut b = bt.0.lock().unwrap();
    let r: Vec<usize> = runnable(&b).into_iter().filter(|t| *t != m).collect();
    match pick_from(&r) {
        None => { drop(b); panic!("deadlock: no runnable thread"); }
        Some(n) => { b.cur = n; bt.1.notify_all(); while b.cur != m { b = bt.1.wait(b).unwrap(); } }
    }
}
static PREEMPTIONS: Mutex<usize> = Mutex::new(0);
pub fn yield_now() {
    if is_cooperative() { return; }
    let bt = baton(); let m = me();
    let mut b = bt.0.lock().unwrap();
    // context bounding (VSYM_PARAM_preemptions): same rule as the symbolic scheduler
    let r = runnable(&b);
    if let Ok(v) = std::env::var("VSYM_PARAM_preemptions") {
        let bound: usize = v.parse().unwrap();
        if r.len() > 1 && r.contains(&m) && *PREEMPTIONS.lock().unwrap() >= bound { return; }
    }
    match pick_from(&r) {
        None => { println!("DEADLOCK"); std::process::exit(4); }
        Some(n) => { if n != m { if r.contains(&m) { *PREEMPTIONS.lock().unwrap() += 1; } b.cur = n; bt.1.notify_all(); while b.cur != m { b = bt.1.wait(b).unwrap(); } } }
    }
}
pub fn join<T>(h: Handle<T>) -> T {
    let bt = baton(); let m = me();
    { let mut b = bt.0.lock().unwrap(); b.waiting[m] = Some(h.0); }
    loop {
        { let b = bt.0.lock().unwrap(); if b.done[h.0] { break; } }
        yield_now();
    }
    { let mut b = bt.0.lock().unwrap(); b.waiting[m] = None; }
    let v = h.1.lock().unwrap().take().unwrap(); v
}

// ---- cooperative (non-preemptive) mode: handler threads run until they finish or sleep; the harness decides who runs next
static COOP: Mutex<bool> = Mutex::new(false);
pub fn set_cooperative(on: bool) { *COOP.lock().unwrap() = on; }
pub fn is_cooperative() -> bool { *COOP.lock().unwrap() }
/// create a thread that does not run until `resume` is called on its handle
pub fn spawn_suspended<T: Send + 'static, F: FnOnce() -> T + Send + 'static>(f: F) -> Handle<T> { spawn(f) }
/// run the thread of `h` until it suspends (sleeps) or finishes; true when it has finished
pub fn resume<T>(h: &Handle<T>) -> bool {
    let bt = baton(); let m = me();
    let mut b = bt.0.lock().unwrap();
    if b.done[h.0] { return true; }
    b.cur = h.0; bt.1.notify_all();
    while b.cur != m { b = bt.1.wait(b).unwrap(); }
    b.done[h.0]
}
/// called by the sleep shim in cooperative mode: hand control back to the thread that resumed us (the harness)
pub fn suspend() {
    let bt = baton(); let m = me();
    let mut b = bt.0.lock().unwrap();
    b.cur = 0; bt.1.notify_all();
    while b.cur != m { b = bt.1.wait(b).unwrap(); }
}
/// result of a finished thread
pub fn take<T>(h: Handle<T>) -> T { let v = h.1.lock().unwrap().take().unwrap(); v }
