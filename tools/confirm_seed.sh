#!/bin/bash
# confirm a seeded change in its scratch worktree: compiles, stable unit tests still pass, demo fails with / passes without
# usage: confirm_seed.sh <ID> [demo test name ...]
ID=$1; shift
WT=/tmp/wt/$ID; OUT=/tmp/wt/$ID-out
cd $WT || exit 9
export CARGO_NET_OFFLINE=true
PATCH=$OUT/patch.diff
# make sure the patch is what is applied
git checkout -- src 2>/dev/null
git apply $PATCH || { echo "patch does not apply"; exit 8; }
DEMOS="$@"
# demos delivered only in the out dir: copy them into tests/
for f in $OUT/demo/*.rs; do b=$(basename $f); [ -f tests/$b ] || cp $f tests/$b; done
if [ -z "$DEMOS" ]; then DEMOS=$(git status --porcelain tests/ | grep '^??' | sed 's/^?? tests\///; s/\.rs$//'); fi
echo "demos: $DEMOS" > $OUT/confirm.log
with=0; without=0
for d in $DEMOS; do
  timeout 900 cargo test --offline --test $d -- --test-threads 1 >> $OUT/confirm.log 2>&1; rc=$?
  echo "WITH patch demo $d rc=$rc" >> $OUT/confirm.log; [ $rc -ne 0 ] && with=1
done
timeout 1500 cargo test --lib --offline -- --test-threads 8 > $OUT/confirm_lib.log 2>&1
grep -E "^test .* (FAILED|failed)" $OUT/confirm_lib.log | sed 's/^test //; s/ \.\.\. .*//' | sort > $OUT/confirm_failed.txt
# re-run individually (single thread) any stable test that failed in the loaded parallel run
for t in $(cat $OUT/confirm_failed.txt); do
  if python3 -c "import json,sys; s=set(x.replace('nun-db::','') for x in json.load(open('/root/.vp/BASELINE.json'))['stable_pass']); sys.exit(0 if '$t' in s else 1)"; then
    timeout 600 cargo test --lib --offline $t -- --test-threads 1 2>&1 | grep -E "^test $t" >> $OUT/confirm_retest.txt
  fi
done
python3 - $OUT <<'PY' >> $OUT/confirm.log
import json,sys
out=sys.argv[1]
stable=set(t.replace('nun-db::','') for t in json.load(open('/root/.vp/BASELINE.json'))['stable_pass'])
failed=[l.strip() for l in open(out+'/confirm_failed.txt') if l.strip()]
import os
retest=open(out+'/confirm_retest.txt').read() if os.path.exists(out+'/confirm_retest.txt') else ''
bad=[f for f in failed if f in stable and ('test %s ... ok' % f) not in retest]
print("LIB failed:",failed); print("STABLE BROKEN:",bad)
PY
git apply -R $PATCH
for d in $DEMOS; do
  timeout 900 cargo test --offline --test $d -- --test-threads 1 >> $OUT/confirm.log 2>&1; rc=$?
  echo "WITHOUT patch demo $d rc=$rc" >> $OUT/confirm.log; [ $rc -eq 0 ] && without=1
done
git apply $PATCH
echo "SUMMARY demo_fails_with=$with demo_passes_without=$without" >> $OUT/confirm.log
grep -E "SUMMARY|STABLE BROKEN|rc=" $OUT/confirm.log
