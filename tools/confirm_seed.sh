#!/bin/bash
# confirm a seeded change in its scratch worktree: compiles, stable unit tests still pass, demo fails with / passes without
# usage: confirm_seed.sh <ID> [demo test name ...]
ID=$1; shift
WT=/tmp/wt/$ID; OUT=/tmp/wt/$ID-out
cd $WT || exit 9
export CARGO_NET_OFFLINE=true
PATCH=$OUT/patch.diff
# make sure the patch is what is applied
git checkout -- src 2>/dev/null
git apply $PATCH || { echo "patch does not apply"; exit 8; }
DEMOS="$@"
if [ -z "$DEMOS" ]; then DEMOS=$(git status --porcelain tests/ | grep '^??' | sed 's/^?? tests\///; s/\.rs$//'); fi
echo "demos: $DEMOS" > $OUT/confirm.log
with=0; without=0
for d in $DEMOS; do
  timeout 900 cargo test --offline --test $d -- --test-threads 1 >> $OUT/confirm.log 2>&1; rc=$?
  echo "WITH patch demo $d rc=$rc" >> $OUT/confirm.log; [ $rc -ne 0 ] && with=1
done
timeout 1500 cargo test --lib --offline -- --test-threads 8 > $OUT/confirm_lib.log 2>&1
grep -E "^test .* (FAILED|failed)" $OUT/confirm_lib.log | sed 's/^test //; s/ \.\.\. .*//' | sort > $OUT/confirm_failed.txt
python3 - $OUT <<'PY' >> $OUT/confirm.log
import json,sys
out=sys.argv[1]
stable=set(t.replace('nun-db::','') for t in json.load(open('/root/.vp/BASELINE.json'))['stable_pass'])
failed=[l.strip() for l in open(out+'/confirm_failed.txt') if l.strip()]
bad=[f for f in failed if f in stable]
print("LIB failed:",failed); print("STABLE BROKEN:",bad)
PY
git apply -R $PATCH
for d in $DEMOS; do
  timeout 900 cargo test --offline --test $d -- --test-threads 1 >> $OUT/confirm.log 2>&1; rc=$?
  echo "WITHOUT patch demo $d rc=$rc" >> $OUT/confirm.log; [ $rc -eq 0 ] && without=1
done
git apply $PATCH
echo "SUMMARY demo_fails_with=$with demo_passes_without=$without" >> $OUT/confirm.log
grep -E "SUMMARY|STABLE BROKEN|rc=" $OUT/confirm.log
