#!/usr/bin/env python3
"""rewrite the generated block of DESIGN.md (§0.3: per-property harnesses and bounds) from vf/props.py and known_findings.json"""
import sys, json, re
sys.path.insert(0, "/verif")
from vf import props
kf = json.load(open("/verif/known_findings.json"))["findings"]
out = ["<!-- BEGIN GENERATED (tools/gen_design_table.py) -->", "### 0.3 Per property: harnesses, bounds, findings (generated from vf/props.py and known_findings.json)", ""]
for pid in sorted(props.PROPS):
    cfg = props.PROPS[pid]
    out.append("**%s** — harnesses: %s." % (pid, ", ".join("`%s`%s" % (h["name"], (" (fn `%s`)" % h["fn"]) if h.get("fn") else "") for h in cfg["harnesses"])))
    out.append("")
    out.append("* quick bound: %s" % cfg.get("bounds", {}).get("quick", ""))
    t = cfg.get("bounds", {}).get("thorough", "")
    if t and t != "same": out.append("* thorough: %s" % t)
    out.append("* outside the claim: %s" % cfg.get("outside", ""))
    for f in kf:
        if f["property"] == pid:
            out.append("* %s `%s`: %s" % ("KNOWN" if f["status"] == "known" else "fixed", f["id"], f["what"][:400]))
    out.append("")
out.append("<!-- END GENERATED -->")
s = open("/verif/DESIGN.md").read()
block = "\n".join(out)
if "<!-- BEGIN GENERATED" in s:
    s = re.sub(r"<!-- BEGIN GENERATED.*?<!-- END GENERATED -->", lambda m: block, s, flags=re.S)
else:
    marker = "---------------------------------------------------------------------------------------------\n\n## 1. What the code looks like to a solver"
    s = s.replace(marker, block + "\n\n" + marker, 1)
open("/verif/DESIGN.md", "w").write(s)
print("ok")
