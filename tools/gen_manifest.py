#!/usr/bin/env python3
"""regenerate MANIFEST.json from vf/props.py (claimed checks) and tools/not_applicable.json"""
import json, os, sys
sys.path.insert(0, "/verif")
from vf import props
NA = json.load(open("/verif/tools/not_applicable.json"))
ids = ["C%02d" % i for i in range(1, 21)]
checks = []
for pid in ids:
    if pid not in props.PROPS: continue
    cfg = props.PROPS[pid]
    checks.append({
        "property_id": pid,
        "quick_cmd": "python3 check.py %s --tier quick" % pid,
        "thorough_cmd": "python3 check.py %s --tier thorough" % pid,
        "evidence_file": "/verif/evidence/%s.json" % pid,
        "replay_cmd_template": "python3 replay.py {path}",
        "engine": "mirsym" + ("+kani" if cfg.get("kani") else ""),
        "level_claimed": {"category": cfg.get("level", "model_checking"),
                          "text": cfg.get("level_text", "bounded symbolic model checking of the real code: the harness drives the real functions (sliced from /repo on every run) with solver variables for inputs / versions / timestamps / scheduler choices / crash points; every path is explored and every check is discharged by cvc5 (unsat = holds for all inputs on that path) within the stated shape bounds; counterexamples are replayed natively before being reported"),
                          "design_ref": "DESIGN.md §4 " + pid},
        "level_note": "trusted: rustc MIR dump, slicer rewrites, environment shims (listed in the evidence file), mirsym std models, cvc5. Bounds: " + str(cfg.get("bounds", {}).get("quick", ""))[:600],
        "technique": cfg.get("technique", "symbolic execution of rustc MIR of the real code + SMT (cvc5 strings/ints/bit-vectors), bounded; schedules, crash points and fault indices as solver-visible choices" + ("; plus a Kani/CBMC proof harness (%s) over the full machine range of an integer kernel" % ", ".join(k["name"] for k in cfg["kani"]) if cfg.get("kani") else "")),
    })
na = [{"property_id": pid, "reason": NA[pid]} for pid in ids if pid not in props.PROPS]
man = {
 "version": 1,
 "setup_cmd": "python3 tools/setup.py",
 "hooks": {"guard": "none", "enable": "no source hooks: every check slices /repo/src/lib into a generated crate (build/nsym) and dumps its MIR", "baseline_off_cmd": "cd /repo && cargo nextest run --workspace --no-fail-fast --test-threads 8 --offline || cargo test --workspace --no-fail-fast --offline", "source_commits": [], "add_only": True},
 "engines": [
  {"name": "mirsym", "path": "vf/", "serves_properties": [c["property_id"] for c in checks], "kind_free_text": "symbolic executor over rustc MIR (-Zunpretty=mir) of the sliced real sources + shim environment; cvc5 decides branches and checks; cooperative-thread scheduler and crash switch as solver-visible choices; native replay of every counterexample"},
  {"name": "kani", "path": "kani/", "serves_properties": [pid for pid in ids if pid in props.PROPS and props.PROPS[pid].get("kani")], "kind_free_text": "Kani 0.68 / CBMC 6.11 proof harnesses (kani/twins.rs) compiled into a copy of the same generated crate: bit-precise twins of integer kernels (version rule, retry rule), unwinding assertions on"},
 ],
 "checks": checks,
 "notes": "exit 0 = held on everything explored (KNOWN-FINDING lines for listed genuine defects), 1 = VIOLATION (replayed natively), 2 = inconclusive (unsupported construct / solver unknown / budget) - never reported as success. Known findings: /verif/known_findings.json.",
 "not_applicable": na,
}
json.dump(man, open("/verif/MANIFEST.json", "w"), indent=1)
print("checks:", [c["property_id"] for c in checks], "n/a:", [n["property_id"] for n in na])
