#!/bin/bash
# run every claimed check (quick tier) on the current tree, print one summary line each
cd /verif
for p in $(python3 -c "import sys; sys.path.insert(0,'/verif'); from vf import props; print(' '.join(sorted(props.PROPS)))"); do
  if [ -n "$1" ] && ! echo "$@" | grep -qw $p; then continue; fi
  timeout 3000 python3 check.py $p > /tmp/runall_$p.log 2>&1; rc=$?
  echo "$p rc=$rc $(grep -c '^VIOLATION' /tmp/runall_$p.log) violations, $(grep -c '^KNOWN' /tmp/runall_$p.log) known, $(grep -c '^INCONCLUSIVE' /tmp/runall_$p.log) inconclusive | $(tail -1 /tmp/runall_$p.log | cut -c1-160)"
done
