#!/bin/bash
# run thorough tier of the given properties sequentially; evidence is restored afterwards (quick evidence is what is committed)
cd /verif
for p in "$@"; do
  s=$(date +%s)
  timeout 5400 python3 check.py $p --tier thorough > /tmp/thorough_$p.log 2>&1; rc=$?
  e=$(date +%s)
  echo "$p thorough rc=$rc $((e-s))s | $(tail -1 /tmp/thorough_$p.log | cut -c1-150)" >> /tmp/thorough_summary.txt
done
git -C /verif checkout -- evidence 2>/dev/null
