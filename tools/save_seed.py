#!/usr/bin/env python3
"""save a confirmed seeded change: save_seed.py <ID> <n> <detected:yes|no|partial> "<which check caught it / why missed>" """
import sys, os, json, shutil, re
ID, n, det, note = sys.argv[1], sys.argv[2], sys.argv[3], sys.argv[4]
src = "/tmp/wt/%s-out" % ID; dst = "/verif/seeded/%s-%s" % (ID, n)
os.makedirs(dst, exist_ok=True)
shutil.copy(src + "/patch.diff", dst + "/patch.diff")
if os.path.exists(dst + "/demo"): shutil.rmtree(dst + "/demo")
shutil.copytree(src + "/demo", dst + "/demo")
am = json.load(open(src + "/meta.json"))
conf = open(src + "/confirm.log").read() if os.path.exists(src + "/confirm.log") else ""
summ = re.findall(r"^(SUMMARY.*|STABLE BROKEN.*|WITH.*rc=.*|WITHOUT.*rc=.*)$", conf, re.M)
meta = {"property": ID, "breaks": am.get("summary"), "needs_to_manifest": am.get("needs"), "files_changed": am.get("files_changed"),
        "author": "independent sub-agent given only the property text and a scratch worktree",
        "agent_tests_run": am.get("tests_run"),
        "confirmed_by_me": {"how": "tools/confirm_seed.sh %s in the scratch worktree: demo with patch (must fail), cargo test --lib with patch vs BASELINE stable_pass, demo with patch reverted (must pass)" % ID, "result": summ},
        "detected_by_checks": det, "detection_note": note}
json.dump(meta, open(dst + "/meta.json", "w"), indent=1)
print("saved", dst)
