#!/usr/bin/env python3
"""offline setup: warm the build (slice + MIR dumps of the shim crates + native replay binary) so the first check is fast; also a smoke test"""
import sys, os, time
sys.path.insert(0, os.path.dirname(os.path.dirname(os.path.abspath(__file__))))
from vf import build
t = time.time()
b = build.build_all()
print("slice + MIR dumps ok", b["timings"])
try:
    p, dt = build.build_native(b["crate"]); print("native replay binary ok %.1fs" % dt)
except Exception as e:
    print("native build failed (checks will report inconclusive on counterexamples):", str(e)[-500:])
print("setup done in %.1fs" % (time.time() - t))
