#!/bin/bash
# apply a seeded patch to /repo, run the given check(s), undo: try_seed.sh <patch> <prop> [more props]
P=$1; shift
rm -rf /tmp/evid_backup; cp -r /verif/evidence /tmp/evid_backup
git -C /repo apply $P || { echo "PATCH DOES NOT APPLY"; exit 9; }
for prop in "$@"; do timeout 1500 python3 /verif/check.py $prop 2>&1 | cut -c1-260 | grep -E "VIOLATION|INCONCLUSIVE|KNOWN|exit=" | head -8; done
git -C /repo checkout -- .
rm -rf /verif/evidence; cp -r /tmp/evid_backup /verif/evidence
