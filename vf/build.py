"""Build step: slice /repo into the generated crate `nsym`, add harnesses, dump MIR of nsym and shims, parse.
Everything is regenerated from /repo's working tree on every call."""
import os, re, subprocess, sys, time, shutil, hashlib, pickle
from . import slicer, mirparse

VERIF = os.path.dirname(os.path.dirname(os.path.abspath(__file__)))
BUILD = os.environ.get("VERIF_BUILD", os.path.join(VERIF, "build"))
SHIM_CRATES = ["vstd", "futures", "atomic_float", "bincode", "bytes", "tokio", "aws_sdk_s3", "aws_config", "tiny_http"]

CARGO_TOML = """[package]
name = "nsym"
version = "0.0.0"
edition = "2018"
[workspace]
[lib]
doctest = false
[dependencies]
vstd = { path = "%(shims)s/vstd" }
futures = { path = "%(shims)s/futures" }
log = { path = "%(shims)s/log" }
atomic_float = { path = "%(shims)s/atomic_float" }
thread-id = { path = "%(shims)s/thread_id", package = "thread_id" }
bincode = { path = "%(shims)s/bincode" }
bytes = { path = "%(shims)s/bytes" }
tokio = { path = "%(shims)s/tokio" }
aws-sdk-s3 = { path = "%(shims)s/aws_sdk_s3" }
aws-config = { path = "%(shims)s/aws_config" }
tiny_http = { path = "%(shims)s/tiny_http" }
lazy_static = "=1.5.0"
vsym = { path = "%(shims)s/vsym" }
[[bin]]
name = "replay"
path = "src/replay_main.rs"
[lints.rust]
unexpected_cfgs = { level = "allow" }
[profile.dev]
debug = 0
"""

def env():
    e = dict(os.environ); e["CARGO_NET_OFFLINE"] = "true"; e.pop("RUSTFLAGS", None)
    return e

def run(cmd, cwd, out=None):
    t = time.time()
    p = subprocess.run(cmd, cwd=cwd, env=env(), stdout=subprocess.PIPE, stderr=subprocess.PIPE, text=True)
    return p, time.time() - t

def harness_files():
    d = os.path.join(VERIF, "harness")
    return sorted(f for f in os.listdir(d) if f.endswith(".rs"))

def generate(tag="nsym"):
    """slice + harness; returns crate dir"""
    crate = os.path.join(BUILD, tag)
    if os.path.exists(os.path.join(crate, "src")): shutil.rmtree(os.path.join(crate, "src"))
    os.makedirs(crate, exist_ok=True)
    info = slicer.generate(crate)
    open(os.path.join(crate, "Cargo.toml"), "w").write(CARGO_TOML % {"shims": os.path.join(VERIF, "shims")})
    hdir = os.path.join(crate, "src", "harness"); os.makedirs(hdir, exist_ok=True)
    mods = []; entries = []
    for f in harness_files():
        src = open(os.path.join(VERIF, "harness", f)).read()
        open(os.path.join(hdir, f), "w").write(src)
        m = f[:-3]; mods.append(m)
        for mm in re.finditer(r"^pub fn ((?:c\d\d|t)_\w+)\(\)", src, re.M): entries.append((m, mm.group(1)))
    open(os.path.join(hdir, "mod.rs"), "w").write("".join("pub mod %s;\n" % m for m in mods))
    # native replay driver: dispatch on harness name
    arms = "".join('        "%s" => nsym::harness::%s::%s(),\n' % (e, m, e) for m, e in entries)
    open(os.path.join(crate, "src", "replay_main.rs"), "w").write(
        "fn main() {\n    let a: Vec<String> = std::env::args().collect();\n    match a[1].as_str() {\n%s        _ => { println!(\"unknown harness\"); std::process::exit(5); }\n    }\n    println!(\"REPLAY-END\");\n}\n" % arms)
    return crate, info

def dump_mir(crate_dir, out_path, lib_only=True):
    # touch so cargo re-runs rustc
    for root in ("src/lib.rs",):
        p = os.path.join(crate_dir, root)
        if os.path.exists(p): os.utime(p, None)
    p, dt = run(["cargo", "+nightly", "rustc", "--offline", "--lib", "--", "-Zunpretty=mir", "-C", "debug-assertions=off", "-C", "overflow-checks=on"], crate_dir)
    if p.returncode != 0:
        raise BuildError("MIR dump failed in %s:\n%s" % (crate_dir, p.stderr[-4000:]))
    open(out_path, "w").write(p.stdout)
    return dt

class BuildError(Exception): pass

def build_all(verbose=False):
    """returns dict with: fns (name -> Fn), texts, src_roots, slicer info, timings"""
    t0 = time.time()
    os.makedirs(BUILD, exist_ok=True)
    crate, info = generate()
    timings = {}
    mir = {}
    timings["nsym"] = dump_mir(crate, os.path.join(BUILD, "nsym.mir"))
    mir["nsym"] = open(os.path.join(BUILD, "nsym.mir")).read()
    for c in SHIM_CRATES:
        cdir = os.path.join(VERIF, "shims", c)
        out = os.path.join(BUILD, c + ".mir")
        # shim dumps are cached by source hash
        h = hashlib.sha1()
        for dp, dn, fn in sorted(os.walk(cdir)):
            if "/target" in dp: continue
            for f in sorted(fn):
                if f.endswith((".rs", ".toml")): h.update(open(os.path.join(dp, f), "rb").read())
        # vstd depends on vsym
        h.update(open(os.path.join(VERIF, "shims", "vsym", "src", "lib.rs"), "rb").read())
        stamp = out + ".sha"
        if os.path.exists(out) and os.path.exists(stamp) and open(stamp).read() == h.hexdigest():
            timings[c] = 0.0
        else:
            timings[c] = dump_mir(cdir, out)
            open(stamp, "w").write(h.hexdigest())
        mir[c] = open(out).read()
    timings["total"] = time.time() - t0
    return {"crate": crate, "mir": mir, "info": info, "timings": timings}

def build_native(crate_dir, release=False):
    """compile the replay binary natively (shims in force); returns path"""
    cmd = ["cargo", "build", "--offline", "--bin", "replay"] + (["--release"] if release else [])
    p, dt = run(cmd, crate_dir)
    if p.returncode != 0: raise BuildError("native build failed:\n" + p.stderr[-4000:])
    return os.path.join(crate_dir, "target", "release" if release else "debug", "replay"), dt
