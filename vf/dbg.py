"""debug driver: python3 -m vf.dbg <harness> [--trace] [--calls]  (single process, sequential)"""
import sys, time, threading, pickle, os
from . import build, program, interp
def main():
    args = sys.argv[1:]
    threading.stack_size(512 * 1024 * 1024); sys.setrecursionlimit(200000)
    verif = build.VERIF
    t = time.time()
    if '--nobuild' in args and os.path.exists(build.BUILD + '/prog.pkl'):
        prog = pickle.load(open(build.BUILD + '/prog.pkl', 'rb'))
    else:
        built = build.build_all(); prog = program.Program(built, verif); prog.texts = None
        pickle.dump(prog, open(build.BUILD + '/prog.pkl', 'wb'))
    print("build+parse %.1fs" % (time.time() - t))
    params = {}
    for a in args:
        if '=' in a: k, v = a.split('=', 1); params[k] = v
    ip = interp.Interp(prog, params)
    ip.calltrace = '--calls' in args; ip.trace = '--trace' in args
    entry = args[0]
    work = [[]]; n = 0; t = time.time(); stats = {}; seen = set()
    maxp = int(params.get('maxpaths', 100000))
    def body():
        nonlocal n
        while work and n < maxp:
            p = work.pop()
            r = ip.run_path(entry, p); n += 1
            stats[r.status] = stats.get(r.status, 0) + 1
            work.extend(r.siblings)
            key = (r.status, r.detail, tuple(v['check'] for v in r.violations))
            if (r.status in ('unsupported', 'panic', 'budget') or r.violations) and key not in seen or '-v' in args:
                seen.add(key)
                print(n, r.status, r.detail, 'steps', r.steps, 'q', r.queries, 'tags', r.tags, 'ndec', len(r.decisions))
                for v in r.violations: print('   VIOLATION', v['check'], v['msg'], [(i['name'], i['value']) for i in (v['inputs'] or [])], 'sched', v['sched'])
            if '-v' in args: print('   checks', r.checks, 'covers', r.covers)
    th = threading.Thread(target=body); th.start(); th.join()
    print("paths", n, stats, "queries", ip.solver.queries, ip.solver.stats, "solver %.2fs total %.2fs" % (ip.solver.time, time.time() - t), "left", len(work))
main()
