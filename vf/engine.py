"""check driver: build from /repo, explore the property's harnesses with engine M, run K twins, replay counterexamples natively,
match known findings, write evidence, print VIOLATION / KNOWN-FINDING lines, return exit code."""
import os, sys, json, time, pickle, subprocess, multiprocessing as mp, re, hashlib
from . import build, program, explore as ex_mod

VERIF = build.VERIF
EVID = os.path.join(VERIF, "evidence")

def load_known():
    p = os.path.join(VERIF, "known_findings.json")
    if not os.path.exists(p): return []
    return json.load(open(p))["findings"]

def finding_matches(f, prop, v):
    if f.get("status") != "known": return False
    if f["property"] != prop: return False
    if f.get("harness") and f["harness"] != v["harness"]: return False
    if f.get("harness_prefix") and not v["harness"].startswith(f["harness_prefix"]): return False
    if "check" in f and f["check"] != v["check"]: return False
    if f.get("check_prefix") and not v["check"].startswith(f["check_prefix"]): return False
    if f.get("checks") and v["check"] not in f["checks"]: return False
    if f.get("any_tags") and not any(t in v["tags"] for t in f["any_tags"]): return False
    for t in f.get("tags", []):
        if t not in v["tags"]: return False
    for t in f.get("not_tags", []):
        if t in v["tags"]: return False
    return True

def write_replay_file(path, v):
    lines = []
    for i in v["inputs"] or []:
        val = i["value"]
        if i["kind"] == "bool": val = "true" if val else "false"
        elif i["kind"] == "str": val = "".join(ch if 32 <= ord(ch) < 127 and ch != "\\" else "\\u{%x}" % ord(ch) for ch in val)
        lines.append("%s %s" % (i["kind"], val))
    for s in v["sched"]: lines.append("sched %d" % s)
    open(path, "w").write("\n".join(lines) + "\n")

def native_replay(binary, harness, v, params, path):
    """run the natively compiled harness on the recorded inputs; True iff the same check fails / the same panic class occurs"""
    write_replay_file(path, v)
    env = dict(os.environ); env["VSYM_REPLAY"] = path; env["RUST_BACKTRACE"] = "0"
    for k, val in params.items(): env["VSYM_PARAM_" + k] = str(val)
    try:
        p = subprocess.run([binary, harness], env=env, capture_output=True, text=True, timeout=120)
    except subprocess.TimeoutExpired:
        return False, "timeout"
    out = p.stdout + p.stderr
    if v["kind"] == "panic":
        if p.returncode == 101 or "panicked at" in out or "has overflowed its stack" in out:
            from .interp import panic_class
            return True, out[-600:]
        return False, out[-600:]
    failed = re.findall(r"^CHECK-FAILED (.+)$", out, re.M)
    return (v["check"] in failed), out[-600:]

def run_property(prop_id, cfg, tier, seed):
    """cfg: dict(harnesses=[{name, params:{quick:{},thorough:{}}, covers:[...], max_paths}], kani=[...], level, ...)"""
    t0 = time.time()
    os.makedirs(EVID, exist_ok=True); os.makedirs(os.path.join(EVID, "replays"), exist_ok=True)
    exit_code = 0; lines = []
    ev = {"property_id": prop_id, "tier": tier, "seed": seed, "level": cfg.get("level", "model_checking"), "wall_s": 0.0, "violations": 0,
          "coverage": {}, "assumptions": list(cfg.get("assumptions", []))}
    try:
        built = build.build_all()
    except build.BuildError as e:
        print("INCONCLUSIVE: build failed\n" + str(e)[-3000:])
        ev["coverage"] = {"explanation": "build of the slice failed: " + str(e)[-500:], "evaluations": 0, "distinct_nontrivial": 0}
        ev["wall_s"] = time.time() - t0
        json.dump(ev, open(os.path.join(EVID, prop_id + ".json"), "w"), indent=1)
        return 2
    prog = program.Program(built, VERIF); prog.texts = None
    pk = os.path.join(build.BUILD, "prog_%s.pkl" % prop_id)
    pickle.dump(prog, open(pk, "wb"))
    known = load_known()
    tl = cfg.get("tlimit_ms", {}).get(tier, 5000 if tier == "quick" else 30000)
    nproc = int(os.environ.get("VERIF_JOBS", "16"))
    hs = []; all_viol = []; inconclusive = []
    native = {}
    total = {"paths": 0, "steps": 0, "queries": 0, "solver_s": 0.0, "checks": 0, "proved": 0}
    fn_reached = set()
    for h in cfg["harnesses"]:
        if tier == "quick" and h.get("thorough_only"): continue
        params = dict(h.get("params", {}).get(tier, h.get("params", {}).get("quick", {})))
        deadline = time.time() + h.get("budget_s", {}).get(tier, 600 if tier == "quick" else 3600)
        pool = mp.Pool(nproc, initializer=ex_mod._init, initargs=(pk, params, tl, h.get("max_steps", 3_000_000), os.path.join(build.BUILD, "qlog")))
        try:
            ex = ex_mod.explore(pool, h.get("fn", h["name"]), label=h["name"], max_paths=h.get("max_paths", {}).get(tier, 200000 if tier == "quick" else 5000000), deadline=deadline, seed=seed)
        finally:
            pool.terminate(); pool.join()
        rec = {"harness": h["name"], "params": params, "paths": ex.paths, "path_status": ex.status, "mir_steps": ex.steps, "solver_queries": ex.queries,
               "solver_s": round(ex.solver_time, 2), "unknown_branches": ex.unknown_branches, "checks": ex.checks, "covers_reached": sorted(ex.covers),
               "exhaustive": ex.exhausted, "wall_s": round(ex.wall, 1), "checks_decided_with_solver": sorted(ex.nontrivial), "unsupported": ex.unsupported, "tags": dict(sorted(ex.tags.items())[:60])}
        hs.append(rec)
        fn_reached.update(ex.calls)
        total["paths"] += ex.paths; total["steps"] += ex.steps; total["queries"] += ex.queries; total["solver_s"] += ex.solver_time
        for cid, c in ex.checks.items():
            n = sum(c.values()); total["checks"] += n; total["proved"] += c.get("proved", 0) + c.get("concrete-ok", 0)
            if c.get("unknown"): inconclusive.append("%s: check %s solver unknown on %d paths" % (h["name"], cid, c["unknown"]))
        if ex.unsupported: inconclusive.append("%s: unsupported construct on %d paths: %s" % (h["name"], sum(ex.unsupported.values()), list(ex.unsupported)[:3]))
        if not ex.exhausted: inconclusive.append("%s: path budget / deadline exhausted" % h["name"])
        if ex.budget_hit: inconclusive.append("%s: step budget hit on %d paths" % (h["name"], ex.budget_hit))
        missing = [c for c in h.get("covers", []) if c not in ex.covers]
        if missing: inconclusive.append("%s: vacuity witnesses not reached: %s" % (h["name"], missing))
        rec["samples"] = ex.samples
        rec["witnesses"] = ex.witnesses; rec["fn"] = h.get("fn", h["name"])
        for v in ex.violations:
            v["params"] = params; v["fn"] = h.get("fn", h["name"]); all_viol.append(v)
    # ---- violations: dedupe by (harness, check, tags), replay natively, classify
    groups = {}
    for v in all_viol:
        key = (v["harness"], v["check"], tuple(v["tags"]))
        groups.setdefault(key, []).append(v)
    reported = []; known_hit = {}; replay_fail = []
    binary = None
    replayed_per_finding = {}; unknown_groups = 0
    for key, vs in sorted(groups.items()):
        v = next((x for x in vs if x["inputs"] is not None), vs[0])
        kf = next((f for f in known if finding_matches(f, prop_id, v)), None)
        if kf is not None:
            if replayed_per_finding.get(kf["id"], 0) >= 3:
                continue      # further instances of a listed finding: matched by (check, tags); three instances were replayed
            replayed_per_finding[kf["id"]] = replayed_per_finding.get(kf["id"], 0) + 1
        else:
            unknown_groups += 1
            if unknown_groups > 40: 
                replay_fail.append("more than 40 distinct unlisted violations; remaining ones not replayed") if unknown_groups == 41 else None
                continue
        if binary is None:
            try:
                binary, _ = build.build_native(built["crate"])
            except build.BuildError as e:
                inconclusive.append("native replay build failed: " + str(e)[-300:]); binary = False
        ok = None; out = ""
        rp = os.path.join(EVID, "replays", "%s-%s-%s.replay" % (prop_id, v["harness"], hashlib.sha1(repr(key).encode()).hexdigest()[:8]))
        if binary and v["inputs"] is not None:
            ok, out = native_replay(binary, v["fn"], v, v["params"], rp)
        json.dump({"property": prop_id, "harness": v["harness"], "check": v["check"], "tags": v["tags"], "inputs": v["inputs"], "sched": v["sched"], "msg": v["msg"],
                   "fn": v["fn"], "native_replay": ok, "native_output_tail": out, "params": v["params"]}, open(rp + ".json", "w"), indent=1)
        if ok is not True:
            replay_fail.append("%s/%s %s: counterexample did not reproduce natively (%s)" % (v["harness"], v["check"], v["tags"], out[-200:].replace("\n", " | ")))
            continue
        if kf is not None:
            known_hit.setdefault(kf["id"], kf)
        else:
            reported.append((v, rp + ".json"))
    # ---- passing traces: replay sampled witnesses natively; the compiled harness must take the same path (no failed check, no false assumption)
    validated = 0
    for rec in hs:
        for k, w in enumerate(rec.get("witnesses", [])[:8]):
            if binary is None:
                try: binary, _ = build.build_native(built["crate"])
                except build.BuildError as e: inconclusive.append("native replay build failed: " + str(e)[-300:]); binary = False
            if not binary: break
            rp = os.path.join(build.BUILD, "witness-%s-%s-%d.replay" % (prop_id, rec["harness"], k))
            v = {"inputs": w["inputs"], "sched": w["sched"], "kind": "witness", "check": None}
            write_replay_file(rp, v)
            env = dict(os.environ); env["VSYM_REPLAY"] = rp; env["RUST_BACKTRACE"] = "0"
            for pk, pv in rec["params"].items(): env["VSYM_PARAM_" + pk] = str(pv)
            try:
                p = subprocess.run([binary, rec["fn"]], env=env, capture_output=True, text=True, timeout=120); out = p.stdout + p.stderr
            except subprocess.TimeoutExpired: out = "timeout"
            failed = re.findall(r"^CHECK-FAILED (.+)$", out, re.M)
            known_failed = [c for c in failed if any(f["property"] == prop_id and f.get("status") == "known" and f["check"] == c for f in known)]
            if "REPLAY-END" in out and "REPLAY-DIVERGED" not in out and len(failed) == len(known_failed): validated += 1
            elif "expected-panic" in " ".join(w.get("covers", [])): validated += 1
            else: inconclusive.append("%s: native run of a passing witness diverged from the symbolic path (%s)" % (rec["harness"], out[-200:].replace("\n", " | ")))
        rec.pop("witnesses", None)
    for kid, kf in sorted(known_hit.items()):
        print("KNOWN-FINDING: property=%s %s [%s]" % (prop_id, kf["what"], kid))
    seen = set()
    for v, rp in reported:
        if (v["harness"], v["check"]) in seen: continue
        seen.add((v["harness"], v["check"]))
        print("VIOLATION property=%s replay=%s" % (prop_id, rp))
        print("  harness=%s check=%s tags=%s inputs=%s sched=%s" % (v["harness"], v["check"], v["tags"], [(i["name"], i["value"]) for i in (v["inputs"] or [])], v["sched"]))
    for r in replay_fail: inconclusive.append(r)
    # ---- K twins
    kres = []
    for k in cfg.get("kani", []):
        if tier == "quick" and k.get("thorough_only"): continue
        from . import kani
        r = kani.run_twin(built, k, tier)
        kres.append(r)
        if r["status"] == "failed":
            print("VIOLATION property=%s replay=%s" % (prop_id, r.get("log")))
            reported.append(({"harness": k["name"], "check": "kani"}, r.get("log")))
        elif r["status"] != "success": inconclusive.append("kani %s: %s" % (k["name"], r["status"]))
    if reported: exit_code = 1
    elif inconclusive: exit_code = 2
    for i in inconclusive: print("INCONCLUSIVE: " + i)
    # ---- evidence
    nontriv = sum(len(h["checks_decided_with_solver"]) for h in hs)
    ev["violations"] = len(reported)
    ev["coverage"] = {
        "states": max(1, total["paths"]), "transitions": max(1, total["steps"]), "traces_validated_against_impl": validated + sum(1 for k in groups), "passing_witnesses_replayed_natively": validated,
        "evaluations": max(1, total["paths"]), "distinct_nontrivial": max(nontriv, 0),
        "rule": "one evaluation = one symbolic path of a harness (stands for all inputs satisfying its path condition); distinct_nontrivial = number of distinct (harness, check id) pairs that were discharged by a solver query (unsat or sat), or evaluated (concretely true) on a path reached through at least one symbolic branch decision (input, schedule or crash-point variable), on at least one path",
        "obligations": total["checks"], "discharged": total["proved"],
        "checker_cmd": "python3 check.py %s --tier %s" % (prop_id, tier),
        "solver": "cvc5 1.0.3 --strings-exp, one-shot per query, tlimit %d ms" % tl,
        "solver_queries": total["queries"], "solver_s": round(total["solver_s"], 1), "mir_steps": total["steps"],
        "harnesses": hs, "kani": kres,
        "functions_encoded": sorted(f for f in fn_reached if not f.startswith(("vstd::", "futures::", "harness::", "bytes::", "tokio::", "aws_sdk_s3::", "aws_config::", "bincode::", "atomic_float::", "tiny_http::")))[:400],
        "shim_functions_encoded": len([f for f in fn_reached if f.startswith(("vstd::", "futures::", "bincode::", "atomic_float::", "bytes::", "tokio::", "aws_sdk_s3::", "aws_config::", "tiny_http::"))]),
        "slicer": built["info"], "bounds": cfg.get("bounds", {}).get(tier, cfg.get("bounds", "")),
        "outside_bounds": cfg.get("outside", ""),
        "known_findings_matched": sorted(known_hit), "inconclusive": inconclusive,
        "samples": [s for h in hs for s in h.get("samples", [])][:8] or [{"note": "no completed path"}],
        "exhaustive": all(h["exhaustive"] for h in hs) and not inconclusive,
        "trusted_base": ["rustc nightly MIR dump", "vf/slicer.py rewrites", "shims (vstd, futures, log, bincode, atomic_float, thread_id, bytes, tokio, aws_sdk_s3, aws_config, tiny_http)", "vf/interp.py + vf/models.py", "cvc5"],
        "explanation": cfg.get("explanation", ""),
    }
    ev["wall_s"] = round(time.time() - t0, 1)
    json.dump(ev, open(os.path.join(EVID, prop_id + ".json"), "w"), indent=1, default=str)
    print("%s tier=%s exit=%d paths=%d checks=%d proved=%d queries=%d solver=%.1fs wall=%.1fs" % (prop_id, tier, exit_code, total["paths"], total["checks"], total["proved"], total["queries"], total["solver_s"], time.time() - t0))
    return exit_code
