"""Path exploration: a master work-list of decision prefixes, executed by a pool of worker processes
(each worker owns an Interp; one task = one path = one re-execution from the harness entry)."""
import os, sys, time, json, multiprocessing as mp, threading, traceback, random

_W = {}
def _init(built_pickle, params, tlimit, max_steps, log_dir):
    import pickle
    from . import program, interp
    threading.stack_size(512 * 1024 * 1024); sys.setrecursionlimit(200000)
    prog = pickle.load(open(built_pickle, 'rb'))
    _W['ip'] = interp.Interp(prog, params, tlimit, max_steps, log_dir)

def _run_in_thread(fn, *a):
    out = {}
    def body():
        try: out['r'] = fn(*a)
        except BaseException as e: out['e'] = e; out['tb'] = traceback.format_exc()
    th = threading.Thread(target=body); th.start(); th.join()
    if 'e' in out: raise RuntimeError(out['tb'])
    return out['r']

def _task(args):
    entry, prefix, ww = args
    ip = _W['ip']
    t = time.time()
    try:
        r = _run_in_thread(ip.run_path, entry, prefix, ww)
    except RuntimeError as e:
        from .interp import PathResult
        r = PathResult(); r.status = 'unsupported'; r.detail = 'internal error: ' + str(e)[-1500:]; r.decisions = prefix
    d = r.__dict__.copy(); d['solver_stats'] = dict(ip.solver.stats); d['covers'] = sorted(r.covers); d['calls'] = sorted(r.calls); d['wall'] = time.time() - t; d['pid'] = os.getpid()
    return d

class Exploration:
    def __init__(self, harness):
        self.harness = harness; self.paths = 0; self.status = {}; self.checks = {}; self.covers = set(); self.violations = []
        self.unsupported = {}; self.steps = 0; self.queries = 0; self.solver_time = 0.0; self.unknown_branches = 0; self.calls = set()
        self.samples = []; self.witnesses = []; self.exhausted = True; self.wall = 0.0; self.budget_hit = 0; self.tags = {}; self.nontrivial = set()
    def add(self, d):
        st = d['status']; self.status[st] = self.status.get(st, 0) + 1
        if st != 'infeasible': self.paths += 1
        for cid, verdict, _ in d['checks']:
            c = self.checks.setdefault(cid, {}); c[verdict] = c.get(verdict, 0) + 1
            # decided with the solver: discharged by a query, or evaluated on a path whose feasibility the solver decided
            if verdict in ('proved', 'violated') or d['queries'] > 0 or len(d['decisions']) > 0: self.nontrivial.add(cid)
        self.covers.update(d['covers']); self.violations.extend(d['violations'])
        for v in d['violations']: v['harness'] = self.harness
        if st == 'unsupported':
            self.unsupported[d['detail']] = self.unsupported.get(d['detail'], 0) + 1
            self.unsupported_tags = getattr(self, 'unsupported_tags', {}); self.unsupported_tags[d['detail'][:80]] = d['tags']
        if st == 'budget': self.budget_hit += 1
        self.steps += d['steps']; self.queries += d['queries']; self.solver_time += d['solver_time']; self.unknown_branches += d['unknown_branches']
        self.calls.update(d['calls'])
        if d.get('solver_stats'): self.solver_stats = getattr(self, 'solver_stats', {}); self.solver_stats[d.get('pid', 0)] = d['solver_stats']
        for t in d['tags']: self.tags[t] = self.tags.get(t, 0) + 1
        if d.get('witness') and len(self.witnesses) < 12: self.witnesses.append(d['witness'])
        if st == 'ok' and len(self.samples) < 6 and (d['tags'] or d['decisions']):
            self.samples.append({'tags': d['tags'], 'decisions': d['decisions'][:40], 'checks': [c[0] + ':' + c[1] for c in d['checks']][:12]})

def explore(pool, harness, label=None, max_paths=20000, deadline=None, seed=0):
    ex = Exploration(label or harness); t0 = time.time()
    pending = []; inflight = 0
    rnd = random.Random(seed)
    work = [[]]
    results = []
    import collections
    done_q = collections.deque()
    lock = threading.Lock()
    def cb(d):
        with lock: done_q.append(d)
    def ecb(e):
        with lock: done_q.append({'status': 'unsupported', 'detail': 'worker error: %r' % (e,), 'siblings': [], 'checks': [], 'covers': [], 'violations': [], 'steps': 0, 'queries': 0, 'solver_time': 0, 'unknown_branches': 0, 'calls': [], 'tags': [], 'decisions': []})
    submitted = 0
    while work or inflight:
        while work and inflight < pool._processes * 2 and submitted < max_paths:
            p = work.pop()
            pool.apply_async(_task, ((harness, p, submitted < 6 or submitted % 97 == 0),), callback=cb, error_callback=ecb); inflight += 1; submitted += 1
        if submitted >= max_paths and work and not inflight:
            ex.exhausted = False; break
        with lock:
            items = list(done_q); done_q.clear()
        if not items:
            time.sleep(0.005)
            if deadline and time.time() > deadline and (work or inflight):
                ex.exhausted = False
                break
            continue
        for d in items:
            inflight -= 1
            ex.add(d)
            sib = d['siblings']
            if seed: rnd.shuffle(sib)
            work.extend(sib)
    if work: ex.exhausted = False
    ex.wall = time.time() - t0
    return ex
