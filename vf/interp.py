"""mirsym: symbolic executor over rustc MIR (-Zunpretty=mir). One Interp.run_path() call executes one path
(decision prefix given, further decisions chosen depth-first, siblings returned to the caller)."""
import re, sys, time, threading, os
from .mirparse import *
from .solver import Solver

# ---------------- values ------------------------------------------------
class Term:
    __slots__ = ('s', 'sort')
    def __init__(self, s, sort): self.s = s; self.sort = sort
    def __repr__(self): return "T(%s)" % self.s
def smt_str(v):
    if isinstance(v, Term): return v.s
    out = []
    for ch in v:
        o = ord(ch)
        if ch == '"': out.append('""')
        elif 32 <= o < 127 and ch != '\\': out.append(ch)
        else: out.append("\\u{%x}" % o)
    return '"' + ''.join(out) + '"'
def smt_int(v):
    if isinstance(v, Term): return v.s
    if isinstance(v, bool): return "1" if v else "0"
    return str(v) if v >= 0 else "(- %d)" % (-v)
def smt_bool(v):
    if isinstance(v, Term): return v.s
    return "true" if v else "false"

class Cell:
    __slots__ = ('v',)
    def __init__(self, v=None): self.v = v
class Ref:
    __slots__ = ('cell',)
    def __init__(self, cell): self.cell = cell
    def __repr__(self): return "&%r" % (self.cell.v,)
class Agg:
    """struct / enum / tuple value"""
    __slots__ = ('ty', 'variant', 'fields', 'names')
    def __init__(self, ty, variant, fields, names=None): self.ty = ty; self.variant = variant; self.fields = fields; self.names = names
    def __repr__(self): return "%s%s(%s)" % (self.ty, ("::" + self.variant) if self.variant else "", ", ".join(repr(c.v)[:80] for c in self.fields))
class Coroutine:
    __slots__ = ('name', 'fields', 'state', 'variants', 'crate', 'body')
    ty = 'Coroutine'; variant = None
    def __init__(self, name, upvars, crate): self.name = name; self.fields = [Cell(u) for u in upvars]; self.state = 0; self.variants = {}; self.crate = crate
class VariantView:
    """transient: coroutine downcast to a saved-locals variant"""
    __slots__ = ('fields',)
    def __init__(self, fields): self.fields = fields
class FnPtr:
    def __init__(self, name): self.name = name
    def __repr__(self): return "fn(%s)" % self.name
class Closure:
    def __init__(self, name, upvars, crate='nsym'): self.name = name; self.fields = [Cell(u) for u in upvars]; self.crate = crate
    ty = 'Closure'; variant = None
    def __repr__(self): return "closure(%s)" % self.name[:40]
class Unit:
    def __repr__(self): return "()"
UNIT = Unit()
class ByteOf:
    """i-th little-endian byte of an integer term"""
    __slots__ = ('t', 'i')
    def __init__(self, t, i): self.t = t; self.i = i
    def __repr__(self): return "ByteOf(%s,%d)" % (self.t.s, self.i)

class Panic(Exception): pass
class ThreadEnd(Exception): pass   # vsym::end_thread: unwinds to the enclosing vsym::run_until_end
class Infeasible(Exception): pass
class Unsupported(Exception): pass
class AbortPath(Exception): pass
class BudgetExceeded(Exception): pass

INT_RANGES = {'i8': (-2**7, 2**7-1), 'i16': (-2**15, 2**15-1), 'i32': (-2**31, 2**31-1), 'i64': (-2**63, 2**63-1), 'i128': (-2**127, 2**127-1), 'isize': (-2**63, 2**63-1),
              'u8': (0, 2**8-1), 'u16': (0, 2**16-1), 'u32': (0, 2**32-1), 'u64': (0, 2**64-1), 'u128': (0, 2**128-1), 'usize': (0, 2**64-1)}

def deep_copy_val(v):
    if isinstance(v, Agg):
        if v.ty == 'Arc': return v
        return Agg(v.ty, v.variant, [Cell(deep_copy_val(c.v)) for c in v.fields], v.names)
    if isinstance(v, list): return [Cell(deep_copy_val(c.v)) for c in v]
    return v

class Frame:
    __slots__ = ('fn', 'locals')
    def __init__(self, fn, args):
        self.fn = fn; self.locals = {}
        for i, a in enumerate(args): self.locals[i + 1] = Cell(a)
    def cell(self, i):
        c = self.locals.get(i)
        if c is None: c = self.locals[i] = Cell(None)
        return c

class PathResult:
    def __init__(self):
        self.status = None          # 'ok' | 'infeasible' | 'unsupported' | 'panic' | 'budget'
        self.detail = None
        self.siblings = []          # decision prefixes to explore
        self.checks = []            # (id, 'proved'|'violated'|'unknown'|'concrete-ok', model)
        self.covers = set()
        self.tags = []
        self.violations = []        # dicts
        self.steps = 0; self.queries = 0; self.solver_time = 0.0; self.unknown_branches = 0
        self.calls = set()
        self.decisions = []
        self.sample = None; self.witness = None

tl = threading.local()

class Interp:
    def __init__(self, prog, params=None, tlimit_ms=5000, max_steps=3_000_000, log_dir=None):
        self.prog = prog; self.fns = prog.fns; self.layouts = prog.layouts
        self.solver = Solver(tlimit_ms, log_dir)
        self.models = {}; self.pattern_models = []
        self.parsed = {}; self.callmap = {}; self.ambiguous = set()
        self.params = params or {}
        self.max_steps = max_steps
        self.globalcache = {}
        self.resolve_cache = {}
        self.model_cache = {}
        self.build_callmap()
        self.sched = Sched(self)
        from . import models
        models.install_all(self)

    # --- name resolution: def names ("bo::<impl at src/bo.rs:493:1: 493:14>::set_value") -> call names
    def build_callmap(self):
        def put(key, name):
            old = self.callmap.get(key)
            if old is not None and old != name: self.ambiguous.add(key)
            self.callmap[key] = name
        for name, f in self.fns.items():
            put(strip_generics(name), name)
            if '<' not in name and '{' not in name:
                segs = name.split('::')
                for k in range(1, len(segs)):
                    key = '::'.join(segs[k:])
                    if key in self.callmap and self.callmap[key] != name: self.ambiguous.add(key)
                    else: self.callmap[key] = name
            m = re.search(r'<impl at ([^>]+?):(\d+):(\d+): \d+:\d+>', name)
            if m:
                hdr = impl_header(self.prog.src_roots[f.crate], m.group(1), int(m.group(2)), int(m.group(3)))
                if hdr:
                    trait, ty = hdr
                    rest = name[m.end():]
                    if trait: key = "<%s as %s>%s" % (last_seg(ty), trait, rest)
                    else: key = "%s%s" % (last_seg(ty), rest)
                    put(key, name)
                    if trait: put("<%s as %s>%s" % (last_seg(ty), strip_generics_all(trait), rest), name)

    def resolve(self, callee):
        r = self.resolve_cache.get(callee, 0)
        if r != 0: return r
        r = self._resolve(callee); self.resolve_cache[callee] = r
        return r
    def _resolve(self, callee):
        c = strip_generics(callee)
        def get(key):
            if key in self.ambiguous: return None
            return self.callmap.get(key)
        if get(c): return get(c)
        c = re.sub(r'<impl ([^<>]+)>', lambda m: last_seg(m.group(1)), c)
        if get(c): return get(c)
        m = re.match(r'<(.+) as (.+?)>(::.+)$', c)
        if m:
            if re.match(r"^&?(?:'\w+ )?(?:mut )?(std|core|alloc)::", m.group(1)): return None    # std types have no MIR body here: never fall back to a shim type of the same last name
            ty = last_seg(m.group(1))
            for tr in (last_seg_keep_generics(m.group(2)), strip_generics_all(last_seg_keep_generics(m.group(2)))):
                key = "<%s as %s>%s" % (ty, tr, m.group(3))
                if get(key): return get(key)
            return None
        parts = c.split('::')
        for k in range(len(parts)):
            key = '::'.join(parts[k:])
            if get(key): return get(key)
        return None

    # --- symbolic inputs
    def fresh(self, sort, hint, kind=None, record=True):
        n = "%s_%d" % (re.sub(r'\W', '_', hint), self.nsym); self.nsym += 1
        self.solver.declare(n, sort)
        if record: self.inputs.append((n, sort, kind, hint))
        return Term(n, sort)
    def name_term(self, t, hint='n'):
        """name a large derived term once (fresh constant + equality)"""
        if not isinstance(t, Term) or len(t.s) < 60: return t
        k = self.named.get(t.s)
        if k is None:
            k = self.fresh(t.sort, hint, record=False); self.solver.add("(= %s %s)" % (k.s, t.s)); self.named[t.s] = k
        return k

    # --- branching by re-execution
    def branch(self, cond):
        if not isinstance(cond, Term): return bool(cond)
        if cond.s == 'true': return True
        if cond.s == 'false': return False
        if self.dpos < len(self.decisions):
            d = self.decisions[self.dpos]; self.dpos += 1
            if d not in (True, False): raise Unsupported("replay divergence: branch where scheduler decision recorded")
            self.solver.add(cond.s if d else "(not %s)" % cond.s)
            return d
        s = self.solver
        rt = s.check((cond.s,))
        if rt == 'unsat':
            can_t, can_f = False, True      # path condition is satisfiable, so the other side is
        else:
            rf = s.check(("(not %s)" % cond.s,))
            can_t = True; can_f = rf != 'unsat'
            if rt == 'unknown' or rf == 'unknown': self.res.unknown_branches += 1
        if can_t and can_f:
            self.res.siblings.append(self.decisions[:self.dpos] + [False])
            self.decisions = self.decisions[:self.dpos] + [True]; self.dpos += 1
            s.add(cond.s); return True
        if can_t:
            self.decisions = self.decisions[:self.dpos] + [True]; self.dpos += 1; s.add(cond.s)
            return True
        self.decisions = self.decisions[:self.dpos] + [False]; self.dpos += 1; s.add("(not %s)" % cond.s)
        return False

    def choose(self, n, kind='s'):
        """non-solver fork over n alternatives (scheduler / choice): returns index"""
        if n == 1: return 0
        if self.dpos < len(self.decisions):
            d = self.decisions[self.dpos]; self.dpos += 1
            if d in (True, False) and not isinstance(d, int): raise Unsupported("replay divergence")
            return d[1] if isinstance(d, tuple) else d
        for alt in range(1, n): self.res.siblings.append(self.decisions[:self.dpos] + [(kind, alt)])
        self.decisions = self.decisions[:self.dpos] + [(kind, 0)]; self.dpos += 1
        return 0

    def strlen_concrete(self, t):
        """length of a symbolic string term, which must be determined by the path condition (forks over small lengths)"""
        lim = int(self.params.get('charlen', 3))
        for n in range(0, lim + 1):
            if self.branch(Term("(= (str.len %s) %d)" % (t.s, n), 'Bool')): return n
        # stated bound: symbolic strings that the code walks character by character are at most `charlen` long
        self.res.covers.add('bound:charlen-cut')
        raise Infeasible()
    def input_names(self): return [n for n, _, _, _ in self.inputs]
    def model_record(self, vals):
        rec = []
        for n, sort, kind, hint in self.inputs:
            if kind is None: continue
            v = vals.get(n)
            if v is None: v = {'Int': 0, 'Bool': False, 'String': ''}[sort]
            rec.append({'name': hint, 'kind': kind, 'value': v})
        return rec

    def check(self, cid, cond):
        res = self.res
        if not isinstance(cond, Term):
            if cond: res.checks.append((cid, 'concrete-ok', None))
            else:
                st, vals = self.solver.model(self.input_names())
                if st == 'unsat': raise Infeasible()
                self.violation(cid, 'check', vals if st == 'sat' else None, solver=st)
            return
        s = self.solver
        neg = "(not %s)" % cond.s
        r = s.check((neg,))
        if r == 'unsat':
            res.checks.append((cid, 'proved', None))
        elif r == 'sat':
            st, vals = s.model(self.input_names(), (neg,))
            if st == 'unsat':
                # the slice admits the negation but the full path condition does not: either the check holds on this path
                # (negation infeasible) or the path itself is infeasible; decide which
                if s.check() == 'unsat': raise Infeasible()
                res.checks.append((cid, 'proved', None)); s.add(cond.s); return
            self.violation(cid, 'check', vals if st == 'sat' else None, solver=st)
        else:
            res.checks.append((cid, 'unknown', None))
        # continue under the assumption that the check held (so later checks are independent findings); when the check fails for
        # EVERY input of this path that assumption would end the path and hide the checks that follow: continue without it then
        s.add(cond.s)
        if r != 'unsat' and s.check() == 'unsat':
            s.asserts.pop()
            res.tags.append('after-total-violation:' + cid) if False else None

    def violation(self, cid, kind, vals, solver='sat', msg=None):
        res = self.res
        res.checks.append((cid, 'violated', None))
        res.violations.append({'check': cid, 'kind': kind, 'msg': msg, 'tags': list(res.tags), 'inputs': self.model_record(vals) if vals is not None else None,
                               'sched': [d[1] for d in self.decisions[:self.dpos] if isinstance(d, tuple) and d[0] == 's'],
                               'decisions': [list(d) if isinstance(d, tuple) else d for d in self.decisions[:self.dpos]], 'solver': solver})

    # --- running one path
    def run_path(self, entry, prefix, want_witness=False):
        self.res = res = PathResult()
        self.decisions = [tuple(d) if isinstance(d, list) else d for d in prefix]; self.dpos = 0; self.nsym = 0; self.inputs = []
        self.solver.reset(); self.pathcache = {}; self.named = {}; self.sfacts = {}; self.steps = 0; self.expect = []; self.handler_depth = {}
        self.sched.reset()
        q0 = self.solver.queries; t0 = self.solver.time
        name = self.resolve(entry)
        try:
            if name is None: raise Unsupported("entry not found: " + entry)
            try:
                self.call_fn(name, [])
            finally:
                self.sched.finish()
            if self.sched.abort: raise self.sched.abort
            res.status = 'ok'
        except Infeasible:
            res.status = 'infeasible'
        except AbortPath:
            e = self.sched.abort
            if isinstance(e, Panic): self.on_panic(e)
            elif isinstance(e, Unsupported): res.status = 'unsupported'; res.detail = str(e)
            elif isinstance(e, Infeasible): res.status = 'infeasible'
            elif isinstance(e, BudgetExceeded): res.status = 'budget'; res.detail = str(e)
            else: res.status = 'unsupported'; res.detail = 'internal: %r' % (e,)
        except Unsupported as e:
            res.status = 'unsupported'; res.detail = str(e)
        except BudgetExceeded as e:
            res.status = 'budget'; res.detail = str(e)
        except Panic as e:
            self.on_panic(e)
        except RecursionError:
            res.status = 'unsupported'; res.detail = 'python recursion limit'
        except Exception as e:
            import traceback
            res.status = 'unsupported'; res.detail = 'internal: %r @ %s' % (e, traceback.format_exc().strip().split('\n')[-3].strip()[:160])
        res.steps = self.steps; res.queries = self.solver.queries - q0; res.solver_time = self.solver.time - t0
        res.decisions = [list(d) if isinstance(d, tuple) else d for d in self.decisions[:self.dpos]]
        if res.status == 'ok' and want_witness and not res.violations:
            # a concrete witness of this completed path: replayed natively by the driver (validates the executor against the compiled code)
            st, vals = self.solver.model(self.input_names())
            if st == 'sat' or not self.inputs:
                res.witness = {'inputs': self.model_record(vals if st == 'sat' else {}), 'sched': [d[1] for d in self.decisions[:self.dpos] if isinstance(d, tuple) and d[0] == 's'],
                               'checks': sorted(set(c[0] for c in res.checks)), 'covers': sorted(c for c in res.covers if not c.startswith('bound:'))}
        return res

    def on_panic(self, e):
        res = self.res
        msg = str(e)
        for pid, pat in self.expect:
            if pat in msg:
                res.status = 'ok'; res.covers.add('expected-panic:' + pid); return
        st, vals = self.solver.model(self.input_names())
        if st == 'unsat': res.status = 'infeasible'; return
        res.status = 'panic'; res.detail = msg
        self.violation('panic:' + panic_class(msg), 'panic', vals if st == 'sat' else None, solver=st, msg=msg)

    trace = False
    HANDLER_DEPTH_LIMIT = 256
    def call_fn(self, name, args):
        # native stack model: the request handler recursing once per input token has no bound; more than HANDLER_DEPTH_LIMIT nested
        # process_request frames count as stack exhaustion (a 2 MiB thread stack holds a few hundred of them in a debug build)
        if name == 'process_request::process_request':
            d = self.handler_depth; k = threading.get_ident(); d[k] = d.get(k, 0) + 1
            try:
                if d[k] > self.HANDLER_DEPTH_LIMIT: raise Panic("stack overflow: more than %d nested request handler frames (recursion driven by the input)" % self.HANDLER_DEPTH_LIMIT)
                return self._call_fn(name, args)
            finally: d[k] -= 1
        return self._call_fn(name, args)
    def _call_fn(self, name, args):
        fn = self.fns[name]
        if self.trace: print('ENTER', name, file=sys.stderr)
        self.res.calls.add(name)
        fr = Frame(fn, args)
        bb = 0
        get_block = self.get_block
        while True:
            stmts, term = get_block(fn, bb)
            self.steps += len(stmts) + 1
            if self.steps > self.max_steps: raise BudgetExceeded("step budget %d exceeded" % self.max_steps)
            for st in stmts:
                if st is None: continue
                if st[0] == 'assign':
                    self.dest_hint = st[1]
                    v = self.rvalue(fr, st[2]); self.place_cell(fr, st[1], write=True).v = v
                elif st[0] == 'setdiscr':
                    c = self.place_cell(fr, st[1]).v
                    if isinstance(c, Coroutine): c.state = st[2]
                    else: raise Unsupported("setdiscr on %r" % (c,))
            t = term
            k = t[0]
            if k == 'goto': bb = t[1]
            elif k == 'call':
                args_v = [self.operand(fr, a) for a in t[3]]
                callee = t[2]
                if callee.startswith(('copy ', 'move ')):
                    fp = self.operand(fr, parse_operand(callee))
                    r = self.call_value(fp, args_v)
                else:
                    r = self.do_call(callee, args_v, fr)
                if t[4] is None: raise Panic("diverging call returned: " + t[2])
                self.place_cell(fr, t[1], write=True).v = r
                bb = t[4]
            elif k == 'switch':
                v = self.operand(fr, t[1])
                bb = self.switch(v, t[2], t[3])
            elif k == 'return':
                c = fr.locals.get(0); return c.v if c and c.v is not None else UNIT
            elif k == 'drop':
                c = self.place_cell(fr, t[1])
                self.drop_value(c.v); bb = t[2]
            elif k == 'assert':
                c = self.operand(fr, t[1])
                ok = self.branch(c if t[2] else self.bnot(c))
                if not ok: raise Panic(t[3])
                bb = t[4]
            elif k == 'unreachable': raise Unsupported("reached unreachable in " + name)
            else: raise Unsupported("term " + str(t))

    def drop_value(self, v):
        if isinstance(v, Agg):
            if v.ty in ('Arc', 'Vec', 'Weak'): return   # shared values are never freed; Vec elements have no observable Drop in this code base
            d = self.resolve("<%s as Drop>::drop" % v.ty)
            if d is not None: self.call_fn(d, [Ref(Cell(v))])
            for c in v.fields: self.drop_value(c.v)
        elif isinstance(v, Coroutine):
            for c in v.fields: self.drop_value(c.v)
            for vs in v.variants.values():
                for c in vs: self.drop_value(c.v)

    def get_block(self, fn, bb):
        key = (fn.name, bb)
        p = self.parsed.get(key)
        if p is None:
            parts = fn.blocks[bb]
            stmts = [parse_stmt(x) for x in parts[:-1]]
            p = self.parsed[key] = (stmts, parse_term(parts[-1]))
        return p

    def switch(self, v, targets, other):
        if isinstance(v, Term):
            for val, bb in targets:
                if v.sort == 'Bool':
                    c = v if val != 0 else Term("(not %s)" % v.s, 'Bool')
                else:
                    c = Term("(= %s %s)" % (v.s, smt_int(val)), 'Bool')
                if self.branch(c): return bb
            if other is None: raise Infeasible()
            return other
        if isinstance(v, str): iv = ord(v)
        elif isinstance(v, ByteOf): raise Unsupported("switch on symbolic byte")
        else: iv = int(v)
        for val, bb in targets:
            if iv == val: return bb
        return other

    def bnot(self, c):
        if isinstance(c, Term):
            if c.s.startswith("(not ") : return Term(c.s[5:-1], 'Bool')
            return Term("(not %s)" % c.s, 'Bool')
        return not c

    # --- places
    def place_cell(self, fr, place, write=False):
        base, proj = place
        cell = fr.cell(base)
        for p in proj:
            k = p[0]
            if k == 'field':
                a = cell.v
                if a is None and write: a = cell.v = Agg('?', None, [])
                try: fields = a.fields
                except AttributeError: raise Unsupported("field of %r" % (a,))
                while len(fields) <= p[1]: fields.append(Cell(None))
                cell = fields[p[1]]
            elif k == 'deref':
                r = cell.v
                if isinstance(r, Ref): cell = r.cell
                elif isinstance(r, Agg) and r.ty in ('Box',): cell = r.fields[0]
                else: raise Unsupported("deref of %r" % (r,))
            elif k == 'downcast':
                a = cell.v
                if isinstance(a, Coroutine):
                    cell = Cell(VariantView(a.variants.setdefault(p[1], [])))
            elif k == 'index':
                idx = fr.cell(p[1]).v; lst = cell.v
                if isinstance(lst, Agg) and lst.ty == 'Vec': lst = lst.fields[0].v
                if isinstance(idx, Term): raise Unsupported('symbolic index')
                if idx >= len(lst): raise Panic('index out of bounds: the len is %d but the index is %d' % (len(lst), idx))
                cell = lst[idx]
            elif k == 'cindex':
                lst = cell.v
                if isinstance(lst, Agg) and lst.ty == 'Vec': lst = lst.fields[0].v
                cell = lst[p[1]]
            else: raise Unsupported("proj " + str(p))
        return cell

    def operand(self, fr, op):
        k = op[0]
        if k == 'copy':
            v = self.place_cell(fr, op[1]).v
            if isinstance(v, (Agg, list)): return deep_copy_val(v)
            return v
        if k == 'move': return self.place_cell(fr, op[1]).v
        if k == 'const': return self.const(op[1], fr.fn.crate)
        if k == 'fnitem': return FnPtr(op[1])
        raise Unsupported(str(op))

    def static_cell(self, name):
        key = ('static', name)
        c = self.pathcache.get(key)
        if c is None:
            c = self.pathcache[key] = Cell(None)
            c.v = self.call_fn(name, [])
        return c

    def const(self, s, crate='nsym'):
        if s == 'true': return True
        if s == 'false': return False
        if s == '()': return UNIT
        m = re.fullmatch(r'(-?\d+)_([iu](?:\d+|size))', s)
        if m: return int(m.group(1))
        if s.startswith('"'): return rust_str_literal(s)
        if re.fullmatch(r'\{alloc\d+: &[A-Z_0-9]+\}', s): return Ref(Cell(Agg('LazyStaticMarker', None, [])))
        m = re.fullmatch(r'\{(alloc\d+): (?:\*(?:mut|const) |&)(.*)\}', s)
        if m:
            name = self.prog.alloc_static.get((crate, m.group(1)))
            if name is None: raise Unsupported("static %s in %s" % (s, crate))
            return Ref(self.static_cell(name))
        if s.startswith('ZeroSized: {closure@'): return Closure(s[len('ZeroSized: '):], [], crate)
        m = re.fullmatch(r'(-?[\d.]+(?:[eE][-+]?\d+)?)f(32|64)', s)
        if m: return float(m.group(1))
        if s.startswith('b"'): return s
        mm = re.fullmatch(r'core::num::<impl ([iu](?:\d+|size))>::(MAX|MIN)', s) or re.fullmatch(r'([iu](?:\d+|size))::(MAX|MIN)', s)
        if mm: return INT_RANGES[mm.group(1)][1 if mm.group(2) == 'MAX' else 0]
        if s.startswith("'"): return eval(s) if '\\u' not in s else chr(int(re.search(r'\{([0-9a-f]+)\}', s).group(1), 16))
        sc = self.prog.simple_consts.get(s) or self.prog.simple_consts.get(s.split('::')[-1])
        if sc is not None: return self.const(sc, crate)
        cands = [s] if s in self.fns else []
        if not cands and (crate + '::' + s) in self.fns: cands = [crate + '::' + s]
        if cands:
            key = ('const', cands[0])
            if key not in self.globalcache: self.globalcache[key] = self.call_fn(cands[0], [])
            return deep_copy_val(self.globalcache[key]) if not isinstance(self.globalcache[key], Ref) else self.globalcache[key]
        r = self.resolve(s)
        if r and getattr(self.fns[r], 'is_const', False): return self.call_fn(r, [])
        if r: return FnPtr(s)
        if s.startswith('ZeroSized: '): return FnPtr(s[len('ZeroSized: '):])
        if re.fullmatch(r'[\w:<>, ]+', s) and s.split('::')[-1][:1].isupper():
            ty, variant = self.split_variant(s)
            return Agg(ty, variant, [])
        m = re.fullmatch(r'(Result|Option)::<.*>::(Ok|Err|Some)\(([A-Z]\w*)\)', s)
        if m: return Agg(m.group(1), m.group(2), [Cell(Agg(m.group(3), None, []))])     # variant holding a unit struct
        m = re.fullmatch(r'([A-Za-z_][\w:]*) \{\{\s*\}\}', s)
        if m: return Agg(m.group(1).split('::')[-1], None, [])     # empty struct constant
        raise Unsupported("const " + s)

    def rvalue(self, fr, rv):
        k = rv[0]
        if k == 'use': return self.operand(fr, rv[1])
        if k == 'ref': return Ref(self.place_cell(fr, rv[1]))
        if k == 'binop': return self.binop(fr, rv[1], self.operand(fr, rv[2]), self.operand(fr, rv[3]), rv)
        if k == 'unop':
            v = self.operand(fr, rv[2])
            if rv[1] == 'Not':
                if isinstance(v, bool) or (isinstance(v, Term) and v.sort == 'Bool'): return self.bnot(v)
                if isinstance(v, Term): raise Unsupported("bitwise not of symbolic int")
                ty = self.operand_type(fr, rv[2])
                if ty in INT_RANGES and INT_RANGES[ty][0] == 0: return INT_RANGES[ty][1] - v
                return ~v
            if rv[1] == 'PtrMetadata':
                w = v
                while isinstance(w, Ref): w = w.cell.v
                if isinstance(w, Agg) and w.ty == 'Vec': w = w.fields[0].v
                if isinstance(w, list): return len(w)
                if isinstance(w, str): return len(w.encode())
                if isinstance(w, Term) and w.sort == 'String': return Term("(str.len %s)" % w.s, 'Int')
                raise Unsupported('PtrMetadata of %r' % (w,))
            if rv[1] == 'Neg': return Term("(- %s)" % v.s, 'Int') if isinstance(v, Term) else -v
        if k == 'discr':
            a = self.place_cell(fr, rv[1]).v
            return self.discr(a)
        if k == 'tuple': return Agg('tuple', None, [Cell(self.operand(fr, o)) for o in rv[1]])
        if k == 'adt':
            path, kind, fields = rv[1], rv[2], rv[3]
            ty, variant = self.split_variant(path)
            if kind == 'named':
                names = [n for n, _ in fields]
                order = self.layouts.get((ty, variant))
                cells = [Cell(self.operand(fr, o)) for _, o in fields]
                if order and set(order) == set(names):
                    by = dict(zip(names, cells)); cells = [by[n] for n in order]; names = order
                return Agg(ty, variant, cells, names)
            return Agg(ty, variant, [Cell(self.operand(fr, o)) for o in fields])
        if k == 'array': return [Cell(self.operand(fr, o)) for o in rv[1]]
        if k == 'repeat':
            v = self.operand(fr, rv[1]); mm = re.match(r'(?:const )?(\d+)', rv[2])
            n = int(mm.group(1)) if mm else self.const(rv[2].replace('const ', ''), fr.fn.crate)
            return [Cell(deep_copy_val(v)) for _ in range(n)]
        if k == 'len':
            v = self.place_cell(fr, rv[1]).v
            return len(v if isinstance(v, list) else v.fields[0].v)
        if k == 'fnptr': return FnPtr(rv[1])
        if k == 'cast': return self.cast(fr, rv)
        if k == 'closure':
            ups = [self.operand(fr, o) for _, o in rv[2]]
            if rv[1].startswith('{coroutine@') or rv[1].startswith('{async'):
                co = Coroutine(rv[1], ups, fr.fn.crate)
                # the poll body of the coroutine created in fn F is F::{closure#k} (the closure whose first parameter is the pinned coroutine)
                cands = [n for n in self.fns if n.startswith(fr.fn.name + '::{closure#') and n.count('{closure#') == fr.fn.name.count('{closure#') + 1
                         and self.fns[n].params and self.fns[n].params[0].strip().startswith('_1: Pin<&mut {')]
                if len(cands) > 1:
                    # several async blocks / closures in one fn: match the source span in the pinned parameter type
                    loc = re.search(r'@([^ ]+:\d+:\d+: \d+:\d+)', rv[1])
                    if loc: cands = [n for n in cands if ('@' + loc.group(1)) in self.fns[n].params[0]]
                co.body = cands[0] if len(cands) == 1 else None
                return co
            return Closure(rv[1], ups, fr.fn.crate)
        raise Unsupported("rvalue " + str(rv))

    def operand_type(self, fr, op):
        if op[0] in ('copy', 'move') and not op[1][1]: return fr.fn.locals.get(op[1][0])
        if op[0] == 'const':
            m = re.fullmatch(r'-?\d+_([iu](?:\d+|size))', op[1])
            if m: return m.group(1)
        return None

    def cast(self, fr, rv):
        v = self.operand(fr, rv[1]); ty = rv[2].strip(); kind = rv[3]
        if kind == 'IntToFloat':
            if isinstance(v, Term): raise Unsupported("symbolic int to float")
            return float(v)
        if kind == 'FloatToInt':
            if isinstance(v, Term): raise Unsupported("symbolic float to int")
            lo, hi = INT_RANGES[ty]; return max(lo, min(hi, int(v)))
        if kind == 'IntToInt':
            if ty not in INT_RANGES: return v
            lo, hi = INT_RANGES[ty]
            if isinstance(v, str): v = ord(v)    # char as u32
            if isinstance(v, bool): return 1 if v else 0
            if isinstance(v, int):
                if lo <= v <= hi: return v
                w = (hi - lo + 1); return ((v - lo) % w) + lo
            if isinstance(v, ByteOf): return v if ty == 'u8' else self.byte_term(v)
            if isinstance(v, Term):
                if v.sort == 'Bool': return Term("(ite %s 1 0)" % v.s, 'Int')
                src = self.operand_type(fr, rv[1])
                if src in INT_RANGES and INT_RANGES[src][0] >= lo and INT_RANGES[src][1] <= hi: return v
                w = hi - lo + 1
                if lo == 0: return Term("(mod %s %d)" % (v.s, w), 'Int')
                return Term("(- (mod (+ %s %d) %d) %d)" % (v.s, -lo, w, -lo), 'Int')
        return v   # pointer / unsize coercions

    def byte_term(self, b):
        return Term("(mod (div %s %d) 256)" % (b.t.s, 256 ** b.i), 'Int')

    def split_variant(self, path):
        p = strip_generics_all(path)
        segs = p.split('::')
        V = self.layouts['__variants__']
        if len(segs) >= 2 and (segs[-2], segs[-1]) in V: return (segs[-2], segs[-1])
        if len(segs) >= 2 and segs[-2] == 'Option': return ('Option', segs[-1])
        if len(segs) >= 2 and segs[-2] == 'Result': return ('Result', segs[-1])
        if len(segs) >= 2 and segs[-2] == 'Poll': return ('Poll', segs[-1])
        if len(segs) == 1:
            owners = [t for (t, v) in V if v == segs[0]]
            if len(owners) == 1: return (owners[0], segs[0])
        return (segs[-1], None)

    VARIANT_IDX = {('Option', 'None'): 0, ('Option', 'Some'): 1, ('Result', 'Ok'): 0, ('Result', 'Err'): 1, ('Poll', 'Ready'): 0, ('Poll', 'Pending'): 1,
                   ('ControlFlow', 'Continue'): 0, ('ControlFlow', 'Break'): 1, ('SeekFrom', 'Start'): 0, ('SeekFrom', 'End'): 1, ('SeekFrom', 'Current'): 2}
    def discr(self, a):
        if isinstance(a, Coroutine): return a.state
        if isinstance(a, Agg):
            key = (a.ty, a.variant)
            if key in self.VARIANT_IDX: return self.VARIANT_IDX[key]
            d = self.prog.enum_discr.get(key)
            if d is not None: return d
            vs = self.layouts.get(('__enum__', a.ty))
            if vs and a.variant in vs: return vs.index(a.variant)
        raise Unsupported("discr of %r" % (a,))

    def int_type_of(self, fr, rv):
        if fr is None: return None
        for op in (rv[2], rv[3]):
            t = self.operand_type(fr, op)
            if t in INT_RANGES: return t
        d = getattr(self, 'dest_hint', None)
        if d is not None and not d[1]:
            t = fr.fn.locals.get(d[0])
            if t:
                m = re.match(r'^\(?([iu](?:\d+|size))(, bool\))?$', t.strip())
                if m: return m.group(1)
        return None

    def binop(self, fr, op, a, b, rv):
        if isinstance(a, ByteOf): a = self.byte_term(a)
        if isinstance(b, ByteOf): b = self.byte_term(b)
        # a byte of a symbolic ASCII string used as a number
        if type(a).__name__ == 'CharOf': a = Term("(str.to_code (str.at %s %d))" % (a.t.s, a.i), 'Int')
        if type(b).__name__ == 'CharOf': b = Term("(str.to_code (str.at %s %d))" % (b.t.s, b.i), 'Int')
        sym = isinstance(a, Term) or isinstance(b, Term)
        if op in ('AddWithOverflow', 'SubWithOverflow', 'MulWithOverflow'):
            ty = self.int_type_of(fr, rv)
            if ty is None: raise Unsupported("overflow op with unknown type")
            lo, hi = INT_RANGES[ty]
            o = {'Add': '+', 'Sub': '-', 'Mul': '*'}[op[:3]]
            if not sym:
                r = {'+': a + b, '-': a - b, '*': a * b}[o]
                return Agg('tuple', None, [Cell(r), Cell(not (lo <= r <= hi))])
            r = Term("(%s %s %s)" % (o, smt_int(a), smt_int(b)), 'Int')
            ov = Term("(or (< %s %s) (> %s %s))" % (r.s, smt_int(lo), r.s, smt_int(hi)), 'Bool')
            return Agg('tuple', None, [Cell(r), Cell(ov)])
        cmpops = {'Eq': '=', 'Lt': '<', 'Le': '<=', 'Gt': '>', 'Ge': '>=', 'Ne': 'distinct'}
        if op in cmpops:
            if not sym:
                if isinstance(a, Agg) and isinstance(b, Agg): return (a.variant == b.variant) == (op == 'Eq')
                return {'Eq': a == b, 'Ne': a != b, 'Lt': a < b, 'Le': a <= b, 'Gt': a > b, 'Ge': a >= b}[op]
            sa = a.sort if isinstance(a, Term) else None; sb = b.sort if isinstance(b, Term) else None
            if isinstance(a, str) or sa == 'String' or isinstance(b, str) or sb == 'String':
                if len(a) == 1 if isinstance(a, str) else False: pass
                if op in ('Eq', 'Ne'): return Term("(%s %s %s)" % (cmpops[op], smt_str(a), smt_str(b)), 'Bool')
                raise Unsupported("string ordering compare")
            if isinstance(a, bool) or sa == 'Bool' or isinstance(b, bool) or sb == 'Bool':
                return Term("(%s %s %s)" % (cmpops[op], smt_bool(a), smt_bool(b)), 'Bool')
            return Term("(%s %s %s)" % (cmpops[op], smt_int(a), smt_int(b)), 'Bool')
        ar = {'Add': '+', 'Sub': '-', 'Mul': '*', 'AddUnchecked': '+', 'SubUnchecked': '-', 'MulUnchecked': '*'}
        if op in ar:
            o = ar[op]
            if not sym:
                r = {'+': a + b, '-': a - b, '*': a * b}[o] if not isinstance(a, float) and not isinstance(b, float) else {'+': a + b, '-': a - b, '*': a * b}[o]
                ty = self.int_type_of(fr, rv) if fr is not None and not isinstance(r, float) else None
                if ty:
                    lo, hi = INT_RANGES[ty]
                    if not lo <= r <= hi: r = ((r - lo) % (hi - lo + 1)) + lo   # overflow-checks off for this op: wraps
                return r
            return Term("(%s %s %s)" % (o, smt_int(a), smt_int(b)), 'Int')
        if op in ('Div', 'Rem'):
            if not sym:
                if isinstance(a, float) or isinstance(b, float): return a / b if op == 'Div' else a % b
                if b == 0: raise Panic('attempt to divide by zero')
                q = abs(a) // abs(b) * (1 if (a >= 0) == (b >= 0) else -1)
                return q if op == 'Div' else a - q * b
            # truncating division; MIR asserts the divisor non-zero beforehand
            ty = self.int_type_of(fr, rv)
            if ty and INT_RANGES[ty][0] == 0:
                if op == 'Rem' and isinstance(b, int) and 0 < b <= 16 and isinstance(a, Term) and a.s.startswith('hash_'):
                    # bucket index of an uninterpreted hash: one path per bucket (keeps object names and partition ids concrete)
                    for k in range(b - 1):
                        if self.branch(Term("(= (mod %s %d) %d)" % (a.s, b, k), 'Bool')): return k
                    return b - 1
                return Term("(%s %s %s)" % ('div' if op == 'Div' else 'mod', smt_int(a), smt_int(b)), 'Int')
            sa, sb = smt_int(a), smt_int(b)
            q = "(ite (>= %s 0) (div %s %s) (- (div (- %s) %s)))" % (sa, sa, sb, sa, sb)   # truncation toward zero for b>0 or b<0 alike
            if op == 'Div': return Term(q, 'Int')
            return Term("(- %s (* %s %s))" % (sa, q, sb), 'Int')
        if op in ('BitAnd', 'BitOr', 'BitXor'):
            if not sym:
                if isinstance(a, bool): return {'BitAnd': a and b, 'BitOr': a or b, 'BitXor': a != b}[op]
                return {'BitAnd': a & b, 'BitOr': a | b, 'BitXor': a ^ b}[op]
            sa = a.sort if isinstance(a, Term) else None; sb = b.sort if isinstance(b, Term) else None
            if 'Bool' in (sa, sb) or isinstance(a, bool) or isinstance(b, bool):
                o = {'BitAnd': 'and', 'BitOr': 'or', 'BitXor': 'xor'}[op]
                return Term("(%s %s %s)" % (o, smt_bool(a), smt_bool(b)), 'Bool')
            # machine integers: through bit-vectors of the operation's width (cvc5 int2bv / bv2nat)
            ty = self.int_type_of(fr, rv) if fr is not None else None
            w = {'u8': 8, 'u16': 16, 'u32': 32, 'u64': 64, 'usize': 64}.get(ty)
            if w is None: raise Unsupported("bitwise op on symbolic ints of type %s" % ty)
            o = {'BitAnd': 'bvand', 'BitOr': 'bvor', 'BitXor': 'bvxor'}[op]
            ia = self.byte_term(a).s if isinstance(a, ByteOf) else smt_int(a); ib = self.byte_term(b).s if isinstance(b, ByteOf) else smt_int(b)
            return Term("(bv2nat (%s ((_ int2bv %d) %s) ((_ int2bv %d) %s)))" % (o, w, ia, w, ib), 'Int')
        if op in ('Shl', 'Shr', 'ShlUnchecked', 'ShrUnchecked') and not sym:
            ty = self.int_type_of(fr, rv)
            r = a << b if op.startswith('Shl') else a >> b
            if ty:
                lo, hi = INT_RANGES[ty]
                if not lo <= r <= hi: r = ((r - lo) % (hi - lo + 1)) + lo
            return r
        if op == 'Cmp':
            if not sym: return Agg('Ordering', 'Less' if a < b else ('Equal' if a == b else 'Greater'), [])
            if self.branch(Term("(< %s %s)" % (smt_int(a), smt_int(b)), 'Bool')): return Agg('Ordering', 'Less', [])
            if self.branch(Term("(= %s %s)" % (smt_int(a), smt_int(b)), 'Bool')): return Agg('Ordering', 'Equal', [])
            return Agg('Ordering', 'Greater', [])
        raise Unsupported("binop " + op)

    # --- calls
    def closure_fn(self, c):
        n = self.prog.closure_fns.get((c.crate, c.name))
        if n is None:
            for (cr, nm), v in self.prog.closure_fns.items():
                if nm == c.name: n = v; break
        if n is None: raise Unsupported("closure body not found: " + c.name)
        return n

    def coroutine_body(self, co):
        n = getattr(co, 'body', None)
        if n is None: raise Unsupported("coroutine body unknown: " + co.name)
        return n
    def call_value(self, f, args):
        """call a closure / fn pointer value with positional args"""
        while isinstance(f, Ref): f = f.cell.v
        if isinstance(f, Closure):
            name = self.closure_fn(f)
            p0 = self.fns[name].params[0].strip()
            selfarg = Ref(Cell(f)) if re.match(r'_1: &', p0) else f
            return self.call_fn(name, [selfarg] + args)
        if isinstance(f, FnPtr): return self.do_call(f.name, args, None)
        raise Unsupported("call of %r" % (f,))

    calltrace = False
    def do_call(self, callee, args, fr=None):
        if self.calltrace: print('CALL', callee[:150], [repr(x)[:60] for x in args], file=sys.stderr)
        m = self.model_cache.get(callee, 0)
        if m == 0:
            base = strip_generics(callee)
            m = self.models.get(base)
            if m is None:
                for pat, fnm in self.pattern_models:
                    if pat.search(base): m = fnm; break
            self.model_cache[callee] = m
        if m is not None: return m(self, callee, args)
        r = self.resolve(callee)
        if r is not None: return self.call_fn(r, args)
        base = strip_generics(callee)
        m2 = re.match(r'<(.+) as (.+?)>(::\w+)$', base)
        if m2 and args:
            # trait method on a generic parameter / reference: dispatch on the runtime type of the receiver
            v = args[0]
            while isinstance(v, Ref): v = v.cell.v
            tyname = getattr(v, 'ty', None)
            if tyname:
                tr = m2.group(2)
                for key in ('<%s as %s>%s' % (tyname, tr, m2.group(3)), '<%s as %s>%s' % (tyname, strip_generics_all(tr), m2.group(3))):
                    r = self.resolve(key)
                    if r is not None: return self.call_fn(r, args)
                    mm = self.models.get(key)
                    if mm is not None: return mm(self, key, args)
                    for pat, fnm in self.pattern_models:
                        if pat.search(key): return fnm(self, key, args)
        raise Unsupported("call " + callee)

# ---------------- cooperative threads -----------------------------------
class Sched:
    """green threads = python threads passing a baton; context switches only at yield points; every scheduling choice is a fork"""
    def __init__(self, ip):
        self.ip = ip; self.cv = threading.Condition(); self.reset()
    def reset(self):
        self.threads = {0: {'done': False, 'result': None, 'waiting': None}}; self.current = 0; self.abort = None; self.nswitch = 0; self.npreempt = 0; self.py = []; self.coop = False
    def finish(self):
        if len(self.threads) > 1:
            leftover = not all(t['done'] for t in self.threads.values())
            if leftover and not self.abort:
                self.abort_all(AbortPath())     # harness returned without joining: stop the remaining green threads
                for th in self.py: th.join(timeout=5)
                self.abort = None
            else:
                for th in self.py: th.join(timeout=5)
    def abort_all(self, e):
        with self.cv:
            if not self.abort: self.abort = e
            self.cv.notify_all()
    def me(self): return getattr(threading.current_thread(), 'mtid', 0)
    def runnable(self):
        out = []
        for tid in sorted(self.threads):
            t = self.threads[tid]
            if t['done']: continue
            w = t['waiting']
            if w is not None and not self.threads[w]['done']: continue
            out.append(tid)
        return out
    def switch(self):
        me = self.me()
        if self.abort: raise AbortPath()
        if len(self.threads) == 1: return
        r = self.runnable()
        if not r:
            self.abort_all(Panic("deadlock: no runnable thread")); raise AbortPath()
        # context bounding (harness parameter `preemptions`): once the budget of preemptive switches is used up a runnable thread
        # keeps running at its yield points (it still hands over when it blocks or ends)
        bound = self.ip.params.get('preemptions')
        if bound is not None and me in r and self.npreempt >= int(bound): return
        nxt = r[self.ip.choose(len(r), 's')]
        if nxt != me:
            self.nswitch += 1
            if me in r: self.npreempt += 1
            with self.cv:
                self.current = nxt; self.cv.notify_all()
                while self.current != me and not self.abort: self.cv.wait()
            if self.abort: raise AbortPath()
    def block_switch(self):
        """current thread is blocked on a lock: must hand over to another runnable thread (not itself)"""
        me = self.me()
        if self.abort: raise AbortPath()
        r = [t for t in self.runnable() if t != me]
        if not r:
            self.abort_all(Panic("deadlock: no runnable thread")); raise AbortPath()
        nxt = r[self.ip.choose(len(r), 's')]
        self.nswitch += 1
        with self.cv:
            self.current = nxt; self.cv.notify_all()
            while self.current != me and not self.abort: self.cv.wait()
        if self.abort: raise AbortPath()
    def resume(self, tid):
        """cooperative mode: run thread tid until it suspends or finishes"""
        me = self.me()
        if self.abort: raise AbortPath()
        if self.threads[tid]['done']: return True
        with self.cv:
            self.current = tid; self.cv.notify_all()
            while self.current != me and not self.abort: self.cv.wait()
        if self.abort: raise AbortPath()
        return self.threads[tid]['done']
    def suspend(self):
        me = self.me()
        if self.abort: raise AbortPath()
        with self.cv:
            self.current = 0; self.cv.notify_all()
            while self.current != me and not self.abort: self.cv.wait()
        if self.abort: raise AbortPath()
    def spawn(self, closure):
        tid = len(self.threads); self.threads[tid] = {'done': False, 'result': None, 'waiting': None}
        def body():
            with self.cv:
                while self.current != tid and not self.abort: self.cv.wait()
            try:
                if self.abort: raise AbortPath()
                self.threads[tid]['result'] = self.ip.call_value(closure, [])
            except AbortPath: pass
            except BaseException as e:
                if not self.abort: self.abort = e
            self.threads[tid]['done'] = True
            with self.cv:
                if not self.abort and self.coop: self.current = 0
                elif not self.abort:
                    r = self.runnable()
                    if not r: self.current = 0
                    else:
                        try: self.current = r[self.ip.choose(len(r), 's')]
                        except BaseException as e: self.abort = e; self.current = 0
                self.cv.notify_all()
        th = threading.Thread(target=body, daemon=True); th.mtid = tid; self.py.append(th); th.start()
        return tid
    def join(self, tid):
        me = self.me()
        self.threads[me]['waiting'] = tid
        while not self.threads[tid]['done']:
            self.switch()
        self.threads[me]['waiting'] = None
        if self.abort: raise AbortPath()
        return self.threads[tid]['result']

# ---------------- helpers ------------------------------------------------
def panic_class(msg):
    m = re.sub(r'\d+', 'N', msg)
    return m[:80]

def rust_str_literal(s):
    body = s[1:-1]; out = []; i = 0
    while i < len(body):
        c = body[i]
        if c == '\\':
            n = body[i + 1]
            if n == 'n': out.append('\n'); i += 2
            elif n == 't': out.append('\t'); i += 2
            elif n == 'r': out.append('\r'); i += 2
            elif n == '0': out.append('\0'); i += 2
            elif n in '\\"\'': out.append(n); i += 2
            elif n == 'u':
                j = body.index('}', i); out.append(chr(int(body[i + 3:j], 16))); i = j + 1
            elif n == 'x': out.append(chr(int(body[i + 2:i + 4], 16))); i += 4
            else: out.append(c); i += 1
        else: out.append(c); i += 1
    return ''.join(out)

def strip_generics(s):
    """remove "::<...>" turbofish groups, keep "<T as Trait>" prefix groups"""
    out = []; i = 0
    while i < len(s):
        if s.startswith('::<', i) and not s.startswith('::<impl', i):
            d = 0; j = i + 2
            while j < len(s):
                if s[j] == '<': d += 1
                elif s[j] == '>' and s[j - 1] not in '-=':
                    d -= 1
                    if d == 0: break
                j += 1
            i = j + 1; continue
        out.append(s[i]); i += 1
    return ''.join(out)

def strip_generics_all(s):
    """remove every <...> group that follows an identifier (type arguments)"""
    out = []; i = 0; n = len(s)
    while i < n:
        c = s[i]
        if c == '<' and i > 0 and (s[i - 1].isalnum() or s[i - 1] == '_' or s[i - 1] == ':'):
            d = 0; j = i
            while j < n:
                if s[j] == '<': d += 1
                elif s[j] == '>' and s[j - 1] not in '-=':
                    d -= 1
                    if d == 0: break
                j += 1
            if out and out[-1] == ':' and len(out) > 1 and out[-2] == ':': out.pop(); out.pop()
            i = j + 1; continue
        out.append(c); i += 1
    return ''.join(out)

def last_seg(t):
    t = t.strip()
    t = re.sub(r"^&(?:'\w+ )?(?:mut )?", '', t)
    depth = 0; cut = 0
    for i, c in enumerate(t):
        if c == '<': depth += 1
        elif c == '>': depth -= 1
        elif c == ':' and depth == 0 and t[i:i + 2] == '::': cut = i + 2
    t = t[cut:]
    return re.sub(r'<.*>$', '', t)
def last_seg_keep_generics(t):
    t = t.strip(); depth = 0; cut = 0
    for i, c in enumerate(t):
        if c == '<': depth += 1
        elif c == '>': depth -= 1
        elif c == ':' and depth == 0 and t[i:i + 2] == '::': cut = i + 2
    return t[cut:]

_SRC_CACHE = {}
def impl_header(root, path, line, col=1):
    fp = os.path.join(root, path)
    if not os.path.exists(fp): return None
    if fp not in _SRC_CACHE: _SRC_CACHE[fp] = open(fp).read().split('\n')
    L = _SRC_CACHE[fp]
    if line - 1 >= len(L): return None
    ln = L[line - 1]
    if ln.strip().startswith('#[derive'):
        mt = re.match(r'\w+', ln[col - 1:])
        k = line
        pat = r'\s*(pub(\([a-z]+\))? )?(struct|enum) (\w+)'
        while k < len(L) and not re.match(pat, L[k]): k += 1
        if k >= len(L) or not mt: return None
        return (mt.group(0), re.match(pat, L[k]).group(4))
    ln = ln[col - 1:] if col > 1 else ln
    ln = ln.split('{')[0]
    m = re.match(r'\s*(?:unsafe )?impl(?:<[^>]*>)?\s+(.+?)\s+for\s+(.+?)\s*(?:where.*)?$', ln)
    if m: return (last_seg_keep_generics(m.group(1)), m.group(2))
    m = re.match(r'\s*(?:unsafe )?impl(?:<.*?>)?\s+(.+?)\s*(?:where.*)?$', ln)
    if m: return (None, m.group(1))
    return None
