"""engine K: Kani twins of pure-integer kernels, compiled from the same sliced sources (build/nsym_kani)"""
import os, re, shutil, subprocess, time
from . import build

def run_twin(built, k, tier):
    """k: {name, timeout_s}; returns {name, status: success|failed|inconclusive, wall_s, log, detail}"""
    t0 = time.time()
    src = built["crate"]; dst = os.path.join(build.BUILD, "nsym_kani")
    os.makedirs(dst, exist_ok=True)
    if os.path.exists(os.path.join(dst, "src")): shutil.rmtree(os.path.join(dst, "src"))
    shutil.copytree(os.path.join(src, "src"), os.path.join(dst, "src"))
    shutil.copy(os.path.join(src, "Cargo.toml"), os.path.join(dst, "Cargo.toml"))
    shutil.copy(os.path.join(build.VERIF, "kani", "twins.rs"), os.path.join(dst, "src", "kani_twins.rs"))
    with open(os.path.join(dst, "src", "lib.rs"), "a") as f: f.write("\npub mod kani_twins;\n")
    log = os.path.join(build.BUILD, "kani_%s.log" % k["name"])
    env = dict(os.environ); env["CARGO_NET_OFFLINE"] = "true"
    cmd = ["cargo", "kani", "--harness", k["name"], "-Z", "unstable-options", "--cbmc-args", "--max-field-sensitivity-array-size", "512"]
    try:
        with open(log, "w") as lf:
            p = subprocess.run(cmd, cwd=dst, env=env, stdout=lf, stderr=subprocess.STDOUT, timeout=k.get("timeout_s", 300), preexec_fn=lambda: __import__("resource").setrlimit(__import__("resource").RLIMIT_AS, (16 << 30, 16 << 30)))
        out = open(log).read()
    except subprocess.TimeoutExpired:
        subprocess.run(["pkill", "-x", "cbmc"]); return {"name": k["name"], "status": "inconclusive", "detail": "timeout", "wall_s": round(time.time() - t0, 1), "log": log}
    m = re.search(r"VERIFICATION:- (SUCCESSFUL|FAILED)", out)
    if not m or "Status: ERROR" in out:
        return {"name": k["name"], "status": "inconclusive", "detail": "no verdict (build error or out of memory)", "wall_s": round(time.time() - t0, 1), "log": log}
    mt = re.search(r"Verification Time: ([\d.]+)s", out)
    failed = re.findall(r"Failed Checks: (.*)", out)
    checks = re.search(r"\*\* (\d+) of (\d+) failed", out)
    return {"name": k["name"], "status": "success" if m.group(1) == "SUCCESSFUL" else "failed", "cbmc_s": float(mt.group(1)) if mt else None,
            "properties_checked": int(checks.group(2)) if checks else None, "failed_checks": failed[:5], "wall_s": round(time.time() - t0, 1), "log": log,
            "engine": "kani 0.68 / CBMC 6.11 (cadical), unwinding assertions on"}
