"""MIR text (-Zunpretty=mir) parser: prototype"""
import re

class Fn:
    def __init__(self, name, params, ret):
        self.name = name; self.params = params; self.ret = ret
        self.locals = {}      # idx -> type str
        self.blocks = {}      # bb idx -> (stmts, term)
        self.argc = len(params)

def split_top(s, sep=','):
    """split s on sep at nesting depth 0 (parens, brackets, braces, angle brackets), string aware"""
    out = []; depth = 0; cur = []; i = 0; n = len(s)
    while i < n:
        c = s[i]
        if c == '"':
            j = i + 1
            while s[j] != '"':
                if s[j] == '\\': j += 1
                j += 1
            cur.append(s[i:j+1]); i = j + 1; continue
        if c == "'" :
            m = re.match(r"'(\\.[^']*|[^'\\])'", s[i:])
            if m: cur.append(m.group(0)); i += m.end(); continue
        if c in '([{': depth += 1
        elif c in ')]}': depth -= 1
        elif c == '<': depth += 1
        elif c == '>' and i > 0 and s[i-1] not in '-=': depth -= 1
        if c == sep and depth == 0:
            out.append(''.join(cur).strip()); cur = []
        else:
            cur.append(c)
        i += 1
    t = ''.join(cur).strip()
    if t: out.append(t)
    return out

def match_close(s, i):
    """s[i] is an opener; return index of matching closer. string/char aware; angle brackets not counted"""
    pairs = {'(': ')', '[': ']', '{': '}'}
    depth = 0; n = len(s)
    while i < n:
        c = s[i]
        if c == '"':
            i += 1
            while s[i] != '"':
                if s[i] == '\\': i += 1
                i += 1
        elif c == "'":
            m = re.match(r"'(\\.[^']*|[^'\\])'", s[i:])
            if m: i += m.end() - 1
        elif c in pairs: depth += 1
        elif c in ')]}':
            depth -= 1
            if depth == 0: return i
        i += 1
    raise ValueError("unbalanced: " + s)

# ---- places -----------------------------------------------------------
def parse_place(s):
    """returns (local_idx, [projections]) ; projections: ('deref',), ('field', n), ('downcast', name), ('index', local), ('cindex', n, frm_end)"""
    s = s.strip()
    proj = []
    def go(t):
        t = t.strip()
        m = re.fullmatch(r'_(\d+)', t)
        if m: return int(m.group(1))
        # trailing index  place[...]
        if t.endswith(']'):
            # find matching '[' from the end
            depth = 0
            for k in range(len(t) - 1, -1, -1):
                if t[k] == ']': depth += 1
                elif t[k] == '[':
                    depth -= 1
                    if depth == 0: break
            base = go(t[:k]); inner = t[k+1:-1].strip()
            m = re.fullmatch(r'_(\d+)', inner)
            if m: proj.append(('index', int(m.group(1))))
            else:
                m = re.fullmatch(r'(-?\d+) of (\d+)', inner)
                if m: proj.append(('cindex', int(m.group(1)), False))
                else:
                    m = re.fullmatch(r'(\d+):(-?\d*)', inner) or re.fullmatch(r'(\d+)\.\.(-?\d*)', inner)
                    if m: proj.append(('subslice', int(m.group(1)), m.group(2)))
                    else: raise ValueError("index proj " + t)
            return base
        assert t[0] == '(' and t[-1] == ')', t
        inner = t[1:-1].strip()
        if inner.startswith('*'):
            base = go(inner[1:]); proj.append(('deref',)); return base
        # (place as Variant)  or (place.N: type)
        # find top-level " as " or ".N:" after the base place
        if inner[0] == '(':
            e = match_close(inner, 0); basetxt = inner[:e+1]; rest = inner[e+1:]
        else:
            m = re.match(r'_\d+', inner); basetxt = m.group(0); rest = inner[m.end():]
        # base may be followed by index brackets
        while rest.startswith('['):
            e = match_close(rest, 0); basetxt += rest[:e+1]; rest = rest[e+1:]
        base = go(basetxt)
        rest = rest.strip()
        if rest.startswith('as '):
            proj.append(('downcast', rest[3:].strip())); return base
        m = re.match(r'\.(\d+):', rest)
        if m: proj.append(('field', int(m.group(1)))); return base
        raise ValueError("place " + t)
    base = go(s)
    return (base, proj)

BINOPS = {'Add','Sub','Mul','Div','Rem','BitAnd','BitOr','BitXor','Shl','Shr','Eq','Ne','Lt','Le','Gt','Ge','Offset',
          'AddWithOverflow','SubWithOverflow','MulWithOverflow','AddUnchecked','SubUnchecked','MulUnchecked','ShlUnchecked','ShrUnchecked','Cmp'}
UNOPS = {'Not','Neg','PtrMetadata'}

def parse_operand(s):
    s = s.strip()
    if s.startswith('copy '): return ('copy', parse_place(s[5:]))
    if s.startswith('move '): return ('move', parse_place(s[5:]))
    if s.startswith('const '): return ('const', s[6:].strip())
    if re.match(r'^[<A-Za-z_]', s) and not s.startswith(('copy', 'move')): return ('fnitem', s)
    raise ValueError("operand " + s)

def parse_rvalue(s):
    s = s.strip()
    if s.startswith('no_retag '): s = s[9:].strip()
    mc = re.search(r' as (.+) \(PointerCoercion\(ReifyFnPointer', s)
    if mc and not s.startswith(('copy ', 'move ', 'const ')):
        return ('fnptr', s[:mc.start()].strip())
    if s.startswith('&raw const (fake) '): return ('ref', parse_place(s[18:]))
    if s.startswith('&raw const '): return ('ref', parse_place(s[11:]))
    if s.startswith('&raw mut '): return ('ref', parse_place(s[9:]))
    if s.startswith('&mut '): return ('ref', parse_place(s[5:]))
    if s.startswith('&'):
        return ('ref', parse_place(s[1:]))
    m = re.match(r'([A-Za-z]+)\(', s)
    if m and (m.group(1) in BINOPS or m.group(1) in UNOPS) and s.endswith(')'):
        args = split_top(s[m.end():-1])
        if m.group(1) in BINOPS: return ('binop', m.group(1), parse_operand(args[0]), parse_operand(args[1]))
        return ('unop', m.group(1), parse_operand(args[0]))
    if s.startswith('discriminant('): return ('discr', parse_place(s[13:-1]))
    if s.startswith('Len('): return ('len', parse_place(s[4:-1]))
    if s.startswith(('copy ', 'move ', 'const ')):
        # maybe a cast:  <operand> as <type> (<kind>)
        m = re.search(r' as (.+) \(([A-Za-z]+)(\(.*\))?(, [A-Za-z]+)?\)$', s)
        if m and not s.startswith('const "'):
            opnd = s[:m.start()]
            try:
                return ('cast', parse_operand(opnd), m.group(1), m.group(2), m.group(3))
            except ValueError:
                pass
        return ('use', parse_operand(s))
    if s.startswith('('):  # tuple
        return ('tuple', [parse_operand(x) for x in split_top(s[1:-1])]) if s != '()' else ('tuple', [])
    if s.startswith('['):
        inner = s[1:-1]
        parts = split_top(inner, ';')
        if len(parts) == 2: return ('repeat', parse_operand(parts[0]), parts[1].strip())
        return ('array', [parse_operand(x) for x in split_top(inner)])
    if s.startswith('{closure@') or s.startswith('{coroutine@') or s.startswith('{async'):
        e = match_close(s, 0); name = s[:e+1]; rest = s[e+1:].strip()
        ops = []
        if rest.startswith('{'):
            for f in split_top(rest[1:-1].strip()):
                k, v = f.split(':', 1); ops.append((k.strip(), parse_operand(v)))
        return ('closure', name, ops)
    # ADT aggregate:  Path { f: op, .. } | Path(op, ..) | Path
    m = re.match(r'^([^\s({]+(?:<.*?>)?[^\s({]*)\s*(\{.*\}|\(.*\))?$', s)
    # robust: find first top-level '{' or '('
    depth = 0; cut = None
    for i, c in enumerate(s):
        if c == '<': depth += 1
        elif c == '>' and s[i-1] not in '-=': depth -= 1
        elif c in '({' and depth == 0 and (i == 0 or s[i-1] in ' >' or s[i-1].isalnum() or s[i-1] == '_'):
            if c == '{' and s[i-1] != ' ': continue
            cut = i; break
    if cut is None: return ('adt', s, None, [])
    path = s[:cut].strip(); body = s[cut:]
    if body.startswith('{'):
        fields = []
        inner = body[1:-1].strip()
        for f in split_top(inner):
            k, v = f.split(':', 1); fields.append((k.strip(), parse_operand(v)))
        return ('adt', path, 'named', fields)
    return ('adt', path, 'pos', [parse_operand(x) for x in split_top(body[1:-1])])

def parse_targets(s):
    """'[return: bb3, unwind continue]' -> dict"""
    d = {}
    for part in split_top(s.strip()[1:-1]):
        if ':' in part:
            k, v = part.split(':', 1); d[k.strip()] = v.strip()
        else: d[part] = True
    return d

def parse_term(s):
    s = s.strip()
    if s == 'return': return ('return',)
    if s == 'unreachable': return ('unreachable',)
    if s.startswith('resume') or s.startswith('terminate'): return ('resume',)
    m = re.fullmatch(r'goto -> bb(\d+)', s)
    if m: return ('goto', int(m.group(1)))
    if s.startswith('switchInt('):
        e = match_close(s, 9); op = parse_operand(s[10:e]); tg = s[e+1:].strip()[2:].strip()
        targets = []; other = None
        for part in split_top(tg[1:-1]):
            k, v = part.split(':'); bb = int(v.strip()[2:])
            if k.strip() == 'otherwise': other = bb
            else: targets.append((int(k.strip()), bb))
        return ('switch', op, targets, other)
    if s.startswith('drop('):
        e = match_close(s, 4); pl = parse_place(s[5:e]); tg = parse_targets(s[e+1:].strip()[2:].strip())
        return ('drop', pl, int(tg['return'][2:]))
    if s.startswith('assert('):
        e = match_close(s, 6); args = split_top(s[7:e]); tg = parse_targets(s[e+1:].strip()[2:].strip())
        cond = args[0].strip(); expected = True
        if cond.startswith('!'): expected = False; cond = cond[1:]
        return ('assert', parse_operand(cond), expected, args[1], int(tg['success'][2:]))
    if s.startswith(('falseEdge', 'falseUnwind')):
        m = re.search(r'bb(\d+)', s); return ('goto', int(m.group(1)))
    # call:  <place> = <callee>(<args>) -> [return: bbN, ...]   |  <place> = <callee>(<args>) -> unwind ...(diverging)
    m = re.match(r'(.+?) = (.+)$', s)
    if m:
        dest = m.group(1); rest = m.group(2)
        arrow = rest.rfind(') -> ')
        callpart = rest[:arrow+1]; tgt = rest[arrow+5:].strip()
        # callee = text before the last top-level '(' group
        # find opening paren matching final ')'
        depth = 0
        for k in range(len(callpart) - 1, -1, -1):
            c = callpart[k]
            if c in ')]}': depth += 1
            elif c in '([{':
                depth -= 1
                if depth == 0: break
        callee = callpart[:k].strip(); args = [parse_operand(a) for a in split_top(callpart[k+1:-1])]
        ret = None
        if tgt.startswith('['):
            tg = parse_targets(tgt)
            if 'return' in tg: ret = int(tg['return'][2:])
        return ('call', parse_place(dest), callee, args, ret)
    raise ValueError("term " + s)

def parse_stmt(s):
    s = s.strip()
    if s.startswith(('StorageLive', 'StorageDead', 'FakeRead', 'PlaceMention', 'AscribeUserType', 'Retag', 'nop', 'Coverage', 'ConstEvalCounter', 'BackwardIncompatibleDropHint')): return None
    if s.startswith('Deinit('): return None
    m = re.match(r'discriminant\((.+)\) = (\d+)$', s)
    if m: return ('setdiscr', parse_place(m.group(1)), int(m.group(2)))
    m = re.match(r'(.+?) = (.+)$', s)
    return ('assign', parse_place(m.group(1)), parse_rvalue(m.group(2)))

def parse_mir(text):
    fns = {}
    lines = text.split('\n'); i = 0; n = len(lines)
    while i < n:
        ln = lines[i]
        m = re.match(r'^(?:fn|const|static|static mut) (.+)$', ln)
        if m and ln.rstrip().endswith('{') and not ln.startswith(' '):
            header = ln.rstrip()[:-1].strip()
            if header.startswith('fn '):
                h = header[3:]
                # name(args) -> ret
                p = h.index('(')
                # closure names contain parens?  find first '(' preceded by name chars at depth 0 w.r.t. <>
                depth = 0
                for k, c in enumerate(h):
                    if c in '<{': depth += 1
                    elif c in '>}' and h[k-1] not in '-=': depth -= 1
                    elif c == '(' and depth == 0: p = k; break
                name = h[:p]; e = match_close(h, p); params = split_top(h[p+1:e]); ret = h[e+1:].strip()
                if ret.startswith('->'): ret = ret[2:].strip()
                f = Fn(name.strip(), params, ret)
            else:
                kind, h = header.split(' ', 1)
                if h.startswith('mut '): h = h[4:]
                depth = 0; cut = None
                for k, c in enumerate(h):
                    if c in '<{[': depth += 1
                    elif c in '>}]' and h[k-1] not in '-=': depth -= 1
                    elif c == ':' and depth == 0 and h[k:k+2] == ': ': cut = k; break
                name, ty = h[:cut], h[cut+1:]
                ty = ty.strip()
                if ty.endswith('='): ty = ty[:-1].strip()
                f = Fn(name.strip(), [], ty); f.is_const = True
            i += 1
            cur = None
            while i < n and lines[i] != '}':
                t = lines[i].strip()
                m2 = re.match(r'let (?:mut )?_(\d+): (.+);$', t)
                if m2: f.locals[int(m2.group(1))] = m2.group(2)
                else:
                    m3 = re.match(r'bb(\d+)(?: \(cleanup\))?: \{$', t)
                    if m3:
                        cur = int(m3.group(1)); stmts = []; i += 1
                        body = []
                        while lines[i].strip() != '}':
                            body.append(lines[i].strip()); i += 1
                        # statements end with ';' ; multi-line statements are rare, join then split
                        joined = ' '.join(body)
                        parts = [p.strip() for p in split_top(joined, ';')]
                        f.blocks[cur] = parts
                i += 1
            if f.name in fns:
                k = 1
                while '%s#%d' % (f.name, k) in fns: k += 1
                f.name = '%s#%d' % (f.name, k)
            fns[f.name] = f
        i += 1
    return fns
