"""std / intrinsic models for the spike"""
import re
from .interp import *

def S(v): return v
def is_sym(v): return isinstance(v, Term)

def val_of_strlike(v):
    """&String (Ref to cell with str), &str (str / Term), String (str/Term) -> str or Term"""
    while isinstance(v, Ref): v = v.cell.v
    return v

def T(fmt, sort, *args): return Term(fmt % args, sort)

# ---- string domain in front of the solver: concatenations keep their parts, integer renderings keep their integer
class SCat(Term):
    """concatenation of parts (python str | Term of sort String); no adjacent concrete parts, no empty part"""
    __slots__ = ('parts',)
    def __init__(self, parts):
        self.parts = parts; self.sort = 'String'; self.s = "(str.++ %s)" % " ".join(smt_str(p) for p in parts)
class IntStr(Term):
    """decimal rendering of an integer term"""
    __slots__ = ('ival', 'ty')
    def __init__(self, ival, ty):
        self.ival = ival; self.ty = ty; self.sort = 'String'
        self.s = '(ite (< %s 0) (str.++ "-" (str.from_int (- %s))) (str.from_int %s))' % (ival.s, ival.s, ival.s) if ty is None or INT_RANGES[ty][0] < 0 else '(str.from_int %s)' % ival.s
def sconcat(parts):
    out = []
    for p in parts:
        for q in (p.parts if isinstance(p, SCat) else (p,)):
            if isinstance(q, str):
                if q == "": continue
                if out and isinstance(out[-1], str): out[-1] += q; continue
            out.append(q)
    if not out: return ""
    if len(out) == 1: return out[0]
    return SCat(out)
def parts_of(s): return s.parts if isinstance(s, SCat) else [s]
def add_fact(ip, t, fact):
    if isinstance(t, Term): ip.sfacts.setdefault(t.s, set()).add(fact)
def inherit_facts(ip, src, dst):
    f = ip.sfacts.get(src.s) if isinstance(src, Term) else None
    if f and isinstance(dst, Term): ip.sfacts.setdefault(dst.s, set()).update(f)
def cannot_contain(ip, s, ch):
    """True when it is syntactically known that string s does not contain the 1-char string ch"""
    if isinstance(s, str): return ch not in s
    if isinstance(s, IntStr): return ch not in "-0123456789"
    if isinstance(s, SCat): return all(cannot_contain(ip, p, ch) for p in s.parts)
    f = ip.sfacts.get(s.s, ())
    if 'printable' in f and not (32 <= ord(ch) < 127): return True
    if ('no:' + ch) in f: return True
    return False


def _range_assume(ip, t, ty):
    lo, hi = INT_RANGES[ty]; ip.solver.add('(and (>= %s %s) (<= %s %s))' % (t.s, smt_int(lo), t.s, smt_int(hi)))
def m_any_int(ty):
    def f(ip, callee, args):
        t = ip.fresh('Int', val_of_strlike(args[0]), ty); _range_assume(ip, t, ty); return t
    return f
def m_hash_u64(ip, callee, args):
    """uninterpreted hash: one fresh u64 per distinct concrete byte content, per path"""
    key = tuple(c.v for c in items_of(args[0]))
    if any(is_sym(x) for x in key): raise Unsupported("hash of symbolic bytes")
    if 'hash_memo' not in ip.named: ip.named['hash_memo'] = {}
    memo = ip.named['hash_memo']
    if key not in memo:
        t = ip.fresh('Int', 'hash', 'u64'); _range_assume(ip, t, 'u64'); memo[key] = t
    return memo[key]
def m_end_thread(ip, callee, args): raise ThreadEnd()
def m_run_until_end(ip, callee, args):
    try: return opt_some(ip.call_value(args[0], []))
    except ThreadEnd: return OPT_NONE()
def m_any_bool(ip, callee, args): return ip.fresh('Bool', val_of_strlike(args[0]), 'bool')
PRINTABLE = '(re.* (re.range " " "~"))'
def m_any_str(ip, callee, args):
    t = ip.fresh('String', val_of_strlike(args[0]), 'str')
    ip.solver.add('(<= (str.len %s) %d)' % (t.s, args[1])); ip.solver.add('(str.in_re %s %s)' % (t.s, PRINTABLE))
    add_fact(ip, t, 'printable')
    return t
def m_any_token(ip, callee, args):
    t = ip.fresh('String', val_of_strlike(args[0]), 'str')
    ip.solver.add('(<= (str.len %s) %d)' % (t.s, args[1]))
    ip.solver.add('(str.in_re %s (re.* (re.union (re.range "!" ":") (re.range "<" "{") (re.range "}" "~"))))' % t.s)
    for f in ('printable', 'no: ', 'no:;', 'no:|'): add_fact(ip, t, f)
    return t
def m_any_ascii(ip, callee, args):
    t = m_any_token(ip, callee, args)
    ip.solver.add('(= (str.len %s) %d)' % (t.s, args[1])); add_fact(ip, t, 'len:%d' % args[1])
    return t
def known_len(ip, q):
    """exact length of a string value if it is syntactically known"""
    if isinstance(q, str): return len(q.encode())
    if isinstance(q, SCat):
        n = 0
        for p in q.parts:
            k = known_len(ip, p)
            if k is None: return None
            n += k
        return n
    for f in ip.sfacts.get(q.s, ()):
        if f.startswith('len:'): return int(f[4:])
    return None
def m_choice(ip, callee, args):
    n = args[1]
    t = ip.fresh('Int', val_of_strlike(args[0]), 'choice'); ip.solver.add('(and (>= %s 0) (< %s %d))' % (t.s, t.s, n))
    # concretise: one path per feasible value (keeps enum-like choices concrete on every path)
    for k in range(n - 1):
        if ip.branch(Term('(= %s %d)' % (t.s, k), 'Bool')): return k
    return n - 1
def m_param(ip, callee, args):
    name = val_of_strlike(args[0])
    return int(ip.params.get(name, args[1]))
def m_assume(ip, callee, args):
    c = args[0]
    if isinstance(c, Term):
        ip.solver.add(c.s)
        if ip.solver.check() == 'unsat': raise Infeasible()
    elif not c: raise Infeasible()
    return UNIT
def m_check(ip, callee, args):
    ip.check(val_of_strlike(args[0]), args[1]); return UNIT
def m_cover(ip, callee, args):
    cid = val_of_strlike(args[0]); c = args[1]
    if isinstance(c, Term):
        if ip.solver.check((c.s,)) == 'sat': ip.res.covers.add(cid)
    elif c: ip.res.covers.add(cid)
    return UNIT
def m_tag(ip, callee, args): ip.res.tags.append(val_of_strlike(args[0])); return UNIT
def m_tag_i(ip, callee, args):
    v = args[1]
    ip.res.tags.append('%s=%s' % (val_of_strlike(args[0]), v if not isinstance(v, Term) else '?')); return UNIT
def m_expect_panic(ip, callee, args): ip.expect.append((val_of_strlike(args[0]), val_of_strlike(args[0]))); return UNIT
def m_spawn(ip, c, a): return Agg('Handle', None, [Cell(ip.sched.spawn(a[0]))])
def m_join(ip, c, a): return ip.sched.join(a[0].fields[0].v)
def m_yield(ip, c, a):
    if not ip.sched.coop: ip.sched.switch()
    return UNIT
def m_current_tid(ip, c, a): return ip.sched.me()
def m_set_coop(ip, c, a): ip.sched.coop = bool(a[0]); return UNIT
def m_is_coop(ip, c, a): return ip.sched.coop
def m_spawn_suspended(ip, c, a): return Agg('Handle', None, [Cell(ip.sched.spawn(a[0]))])
def m_resume(ip, c, a): return ip.sched.resume(unref(a[0]).fields[0].v)
def m_suspend(ip, c, a): ip.sched.suspend(); return UNIT
def m_take(ip, c, a): return ip.sched.threads[a[0].fields[0].v]['result']
def m_block_on_lock(ip, c, a):
    ip.sched.block_switch(); return UNIT

def opt_some(v): return Agg('Option', 'Some', [Cell(v)])
OPT_NONE = lambda: Agg('Option', 'None', [])
def res_ok(v): return Agg('Result', 'Ok', [Cell(v)])
def res_err(v): return Agg('Result', 'Err', [Cell(v)])

def m_string_from(ip, callee, args): return val_of_strlike(args[0])
def m_deref_string(ip, callee, args): return val_of_strlike(args[0])
def m_clone(ip, callee, args): return deep_copy_val(val_of_strlike(args[0]) if not isinstance(args[0].cell.v, Agg) else args[0].cell.v)

def pat_of(v):
    v = val_of_strlike(v)
    return v
def m_starts_with(ip, callee, args):
    s, p = val_of_strlike(args[0]), pat_of(args[1])
    if not is_sym(s) and not is_sym(p): return s.startswith(p)
    return T("(str.prefixof %s %s)", 'Bool', smt_str(p), smt_str(s))
def m_ends_with(ip, callee, args):
    s, p = val_of_strlike(args[0]), pat_of(args[1])
    if not is_sym(s) and not is_sym(p): return s.endswith(p)
    return T("(str.suffixof %s %s)", 'Bool', smt_str(p), smt_str(s))
def m_contains(ip, callee, args):
    s, p = val_of_strlike(args[0]), pat_of(args[1])
    if not is_sym(s) and not is_sym(p): return p in s
    if isinstance(p, str) and len(p) == 1:
        if cannot_contain(ip, s, p): return False
        if isinstance(s, SCat) and any(isinstance(q, str) and p in q for q in s.parts): return True
    return T("(str.contains %s %s)", 'Bool', smt_str(s), smt_str(p))
def m_replace(ip, callee, args):
    s, a, b = val_of_strlike(args[0]), pat_of(args[1]), val_of_strlike(args[2])
    if not any(map(is_sym, (s, a, b))): return s.replace(a, b)
    if isinstance(a, str) and len(a) == 1 and isinstance(b, str):
        out = []
        for q in parts_of(s):
            if isinstance(q, str): out.append(q.replace(a, b))
            elif cannot_contain(ip, q, a): out.append(q)
            else:
                r = ip.name_term(T("(str.replace_all %s %s %s)", 'String', smt_str(q), smt_str(a), smt_str(b)), 'rep')
                inherit_facts(ip, q, r)
                if b == "" : add_fact(ip, r, 'no:' + a)
                out.append(r)
        return sconcat(out)
    return T("(str.replace_all %s %s %s)", 'String', smt_str(s), smt_str(a), smt_str(b))
def m_replacen(ip, callee, args):
    s, a, b, n = val_of_strlike(args[0]), pat_of(args[1]), val_of_strlike(args[2]), args[3]
    if any(map(is_sym, (s, a, b, n))): raise Unsupported("replacen on symbolic text")
    return s.replace(a, b, n)
def m_str_eq(ip, callee, args):
    a, b = val_of_strlike(args[0]), val_of_strlike(args[1])
    if not is_sym(a) and not is_sym(b): return a == b
    for x, y in ((a, b), (b, a)):
        if isinstance(y, str):
            if isinstance(x, SCat):
                if isinstance(x.parts[0], str) and not y.startswith(x.parts[0]): return False
                if isinstance(x.parts[-1], str) and not y.endswith(x.parts[-1]): return False
                if sum(len(q) for q in x.parts if isinstance(q, str)) > len(y): return False
            for ch in set(y):
                if cannot_contain(ip, x, ch): return False
    if isinstance(a, Term) and isinstance(b, Term) and a.s == b.s: return True
    return T("(= %s %s)", 'Bool', smt_str(a), smt_str(b))
def m_str_ne(ip, callee, args): return ip.bnot(m_str_eq(ip, callee, args))
def m_len(ip, callee, args):
    s = val_of_strlike(args[0])
    if not is_sym(s): return len(s.encode())
    k = known_len(ip, s)
    if k is not None: return k
    if isinstance(s, SCat):
        n = sum(len(q.encode()) for q in s.parts if isinstance(q, str))
        ts = [q for q in s.parts if not isinstance(q, str)]
        return T("(+ %d %s)", 'Int', n, " ".join("(str.len %s)" % q.s for q in ts))
    return T("(str.len %s)", 'Int', s.s)
def _maybe_empty_part(ip, q):
    """a symbolic part that is empty exposes its neighbour to trimming: branch on emptiness (True = it is empty)"""
    n = known_len(ip, q)
    if n is not None: return n == 0
    return ip.branch(T('(= %s "")', 'Bool', smt_str(q)))
def _strip_suffix_char(ip, s, ch, limit=3):
    """remove trailing occurrences of 1-char string ch (at most `limit` symbolic ones: stated bound)"""
    parts = list(parts_of(s)); n = 0
    while parts:
        q = parts[-1]
        if isinstance(q, str):
            q2 = q.rstrip(ch)
            if q2: parts[-1] = q2; break
            parts.pop(); continue
        if cannot_contain(ip, q, ch):
            if _maybe_empty_part(ip, q): parts.pop(); continue
            break
        has = ip.branch(T("(str.suffixof %s %s)", 'Bool', smt_str(ch), smt_str(q)))
        if not has:
            if _maybe_empty_part(ip, q): parts.pop(); continue
            break
        if n >= limit: m_assume(ip, '', [False])
        r = ip.fresh('String', 'trim', record=False); ip.solver.add("(= %s (str.++ %s %s))" % (q.s, r.s, smt_str(ch))); inherit_facts(ip, q, r)
        n += 1
        if ip.branch(T('(= %s "")', 'Bool', r.s)): parts.pop()
        else: parts[-1] = r
    return sconcat(parts)
def _strip_prefix_char(ip, s, ch, limit=3):
    parts = list(parts_of(s)); n = 0
    while parts:
        q = parts[0]
        if isinstance(q, str):
            q2 = q.lstrip(ch)
            if q2: parts[0] = q2; break
            parts.pop(0); continue
        if cannot_contain(ip, q, ch):
            if _maybe_empty_part(ip, q): parts.pop(0); continue
            break
        has = ip.branch(T("(str.prefixof %s %s)", 'Bool', smt_str(ch), smt_str(q)))
        if not has:
            if _maybe_empty_part(ip, q): parts.pop(0); continue
            break
        if n >= limit: m_assume(ip, '', [False])
        r = ip.fresh('String', 'trim', record=False); ip.solver.add("(= %s (str.++ %s %s))" % (q.s, smt_str(ch), r.s)); inherit_facts(ip, q, r)
        n += 1
        if ip.branch(T('(= %s "")', 'Bool', r.s)): parts.pop(0)
        else: parts[0] = r
    return sconcat(parts)
def m_trim_end_matches(ip, callee, args):
    s, ch = val_of_strlike(args[0]), args[1]
    if not is_sym(s): return s.rstrip(ch)
    return _strip_suffix_char(ip, s, ch)
def m_trim_matches(ip, callee, args):
    s, ch = val_of_strlike(args[0]), args[1]
    if not is_sym(s): return s.strip(ch)
    return _strip_prefix_char(ip, _strip_suffix_char(ip, s, ch), ch)

def m_splitn(ip, callee, args):
    s, n, sep = val_of_strlike(args[0]), args[1], val_of_strlike(args[2])
    return Agg('SplitN', None, [Cell(s), Cell(n), Cell(sep), Cell(False)])
def m_split(ip, callee, args):
    s, sep = val_of_strlike(args[0]), val_of_strlike(args[1])
    return Agg('SplitN', None, [Cell(s), Cell(1 << 60), Cell(sep), Cell(False)])
def split_once(ip, s, sep):
    """returns None if sep does not occur in s, else (head, rest); forks on symbolic parts"""
    if not is_sym(s) and not is_sym(sep):
        i = s.find(sep)
        return None if i < 0 else (s[:i], s[i + len(sep):])
    if isinstance(sep, str) and len(sep) == 1:
        parts = parts_of(s)
        for k, q in enumerate(parts):
            if isinstance(q, str):
                i = q.find(sep)
                if i >= 0: return (sconcat(parts[:k] + [q[:i]]), sconcat([q[i + 1:]] + parts[k + 1:]))
                continue
            if cannot_contain(ip, q, sep): continue
            if not ip.branch(T("(str.contains %s %s)", 'Bool', q.s, smt_str(sep))): 
                continue
            head = ip.fresh('String', 'hd', record=False); rest = ip.fresh('String', 'rs', record=False)
            ip.solver.add("(= %s (str.++ %s %s %s))" % (q.s, head.s, smt_str(sep), rest.s)); ip.solver.add("(not (str.contains %s %s))" % (head.s, smt_str(sep)))
            inherit_facts(ip, q, head); inherit_facts(ip, q, rest); add_fact(ip, head, 'no:' + sep)
            return (sconcat(parts[:k] + [head]), sconcat([rest] + parts[k + 1:]))
        return None
    has = ip.branch(T("(str.contains %s %s)", 'Bool', smt_str(s), smt_str(sep)))
    if not has: return None
    head = ip.fresh('String', 'hd', record=False); rest = ip.fresh('String', 'rs', record=False)
    ip.solver.add("(= %s (str.++ %s %s %s))" % (smt_str(s), head.s, smt_str(sep), rest.s))
    if isinstance(sep, str) and len(sep) == 1: ip.solver.add("(not (str.contains %s %s))" % (head.s, smt_str(sep)))
    else: ip.solver.add("(= (str.indexof %s %s 0) (str.len %s))" % (smt_str(s), smt_str(sep), head.s))
    return (head, rest)
def m_splitn_next(ip, callee, args):
    it = args[0].cell.v
    s, n, sep, done = [c.v for c in it.fields[:4]]
    if done or n == 0: return OPT_NONE()
    if n == 1:
        it.fields[3].v = True; return opt_some(s)
    if len(it.fields) < 5: it.fields.append(Cell(0))
    if is_sym(s) and it.fields[4].v >= int(ip.params.get('splitlimit', 3)):
        # stated bound: at most `splitlimit` separators are located inside symbolic text per split iterator
        c = m_contains(ip, callee, [s, sep])
        if c is True or (c is not False and ip.branch(c)):
            ip.res.covers.add('bound:split-cut'); raise Infeasible()
        r = None
    else:
        r = split_once(ip, s, sep)
    if r is None:
        it.fields[3].v = True; return opt_some(s)
    if is_sym(s): it.fields[4].v += 1
    it.fields[0].v = r[1]; it.fields[1].v = n - 1
    return opt_some(r[0])

def m_to_string(ip, callee, args):
    v = val_of_strlike(args[0])
    if isinstance(v, (str,)) or (isinstance(v, Term) and v.sort == 'String'): return v
    return display_value(ip, v)
def m_unwrap(ip, callee, args):
    a = args[0]
    if a.variant in ('Some', 'Ok'): return a.fields[0].v
    raise Panic("called unwrap on %s" % a.variant)
def m_unwrap_or(ip, callee, args):
    a = args[0]
    if a.variant in ('Some', 'Ok'): return a.fields[0].v
    return args[1]

def m_from_str_radix(ip, callee, args):
    s = val_of_strlike(args[0])
    ty = re.search(r'impl (\w+)>', callee).group(1)
    return parse_int(ip, s, ty)
def m_parse(ip, callee, args):
    s = val_of_strlike(args[0])
    ty = re.search(r'parse::<(\w+)>', callee).group(1)
    return parse_int(ip, s, ty)
def parse_int(ip, s, ty):
    lo, hi = INT_RANGES[ty]
    if isinstance(s, IntStr):
        if s.ty and INT_RANGES[s.ty][0] >= lo and INT_RANGES[s.ty][1] <= hi: return res_ok(s.ival)
        inr = T("(and (>= %s %s) (<= %s %s))", 'Bool', s.ival.s, smt_int(lo), s.ival.s, smt_int(hi))
        if not ip.branch(inr): return res_err(Agg('ParseIntError', None, []))
        return res_ok(s.ival)
    if not is_sym(s):
        try:
            if not re.fullmatch(r'[+-]?\d+', s) or (lo == 0 and s.startswith('-')): raise ValueError
            v = int(s)
            if not lo <= v <= hi: raise ValueError
            return res_ok(v)
        except ValueError: return res_err(Agg('ParseIntError', None, []))
    digits = '(re.+ (re.range "0" "9"))'
    if lo < 0: rex = '(re.++ (re.opt (re.union (str.to_re "+") (str.to_re "-"))) %s)' % digits
    else: rex = '(re.++ (re.opt (str.to_re "+")) %s)' % digits
    wf = T("(str.in_re %s %s)", 'Bool', s.s, rex)
    if not ip.branch(wf): return res_err(Agg('ParseIntError', None, []))
    neg = lo < 0 and ip.branch(T('(str.prefixof "-" %s)', 'Bool', s.s))
    plus = (not neg) and ip.branch(T('(str.prefixof "+" %s)', 'Bool', s.s))
    if neg or plus:
        b = ip.fresh('String', 'digits', record=False); ip.solver.add('(= %s (str.++ "%s" %s))' % (s.s, '-' if neg else '+', b.s)); body = b.s
    else: body = s.s
    n = "(str.to_int %s)" % body
    val = T("(- %s)", 'Int', n) if neg else Term(n, 'Int')
    val = ip.name_term(val, 'pv') if len(val.s) > 40 else val
    inr = T("(and (>= %s %s) (<= %s %s))", 'Bool', val.s, smt_int(lo), val.s, smt_int(hi))
    if not ip.branch(inr): return res_err(Agg('ParseIntError', None, []))
    return res_ok(val)

def m_format(ip, callee, args):
    return ip.fresh('String', 'fmt')   # spike: opaque
def m_ident(ip, callee, args): return args[0]
def m_argument_new(ip, callee, args):
    m = re.search(r'new_(?:display|debug)::<&?([iu](?:\d+|size))>', callee)
    return Agg('Argument', None, [Cell(args[0]), Cell(m.group(1) if m else None)])
def m_arguments_new(ip, callee, args): return Agg('Arguments', None, [Cell(a) for a in args])

def m_lazy_deref(ip, callee, args):
    m = re.match(r'<(\w+) as Deref>::deref', callee)
    name = m.group(1)
    key = ('lazy', name)
    if key in ip.globalcache: return Ref(ip.globalcache[key])
    if key not in ip.pathcache:
        init = ip.prog.lazy_init.get(name)
        if init is None: raise Unsupported("lazy static " + name)
        n0 = ip.nsym; e0 = getattr(ip, 'env_reads', 0)
        ip.pathcache[key] = Cell(ip.call_fn(init, []))
        # initialisers that read neither a symbolic input nor the environment are shared across paths (read-only tables)
        if ip.nsym == n0 and getattr(ip, 'env_reads', 0) == e0: ip.globalcache[key] = ip.pathcache[key]
    return Ref(ip.pathcache[key])

# --- Vec model (python list of Cells inside an Agg('Vec'))
def vec_of(v):
    while isinstance(v, Ref): v = v.cell.v
    return v
def m_vec_new(ip, callee, args): return Agg('Vec', None, [Cell([])])
def m_vec_push(ip, callee, args): vec_of(args[0]).fields[0].v.append(Cell(args[1])); return UNIT
def m_vec_len(ip, callee, args): return len(vec_of(args[0]).fields[0].v)
def m_vec_index(ip, callee, args):
    lst = vec_of(args[0]).fields[0].v; i = args[1]
    if i >= len(lst): raise Panic("index out of bounds")
    return Ref(lst[i])
def m_borrow(ip, callee, args): return args[0]
def m_generic_eq(ip, callee, args):
    a, b = args[0], args[1]
    while isinstance(a, Ref): a = a.cell.v
    while isinstance(b, Ref): b = b.cell.v
    if not isinstance(a, Agg) and not isinstance(b, Agg) and (isinstance(a, (str, Term)) or isinstance(b, (str, Term))):
        if isinstance(a, Term) and a.sort != 'String': return ip.binop(None, 'Eq', a, b, None)
        if isinstance(b, Term) and b.sort != 'String': return ip.binop(None, 'Eq', a, b, None)
        return m_str_eq(ip, callee, [a, b])
    if isinstance(a, Agg) and not isinstance(b, Agg):
        key = re.sub(r"&(?:'\w+ )?(?:mut )?", '', strip_generics(callee)).replace('::ne', '::eq')
        d = ip.resolve(key)
        if d is not None: return ip.call_fn(d, [Ref(Cell(a)), Ref(Cell(b))])
        raise Unsupported('eq ' + callee + ' a=' + repr(a)[:200] + ' b=' + repr(b)[:80])
    if isinstance(a, Agg) and isinstance(b, Agg):
        d = ip.resolve('<%s as PartialEq>::eq' % a.ty)
        if d is not None: return ip.call_fn(d, [Ref(Cell(a)), Ref(Cell(b))])
        if a.variant != b.variant or len(a.fields) != len(b.fields): return False
        res = True
        for x, y in zip(a.fields, b.fields):
            e = m_generic_eq(ip, callee, [x.v, y.v])
            if e is False: return False
            if e is not True: res = e if res is True else Term('(and %s %s)' % (res.s, e.s), 'Bool')
        return res
    return a == b

def install(ip):
    M = ip.models
    for ty in ('i32', 'i64', 'u8', 'u64', 'u128', 'usize'):
        M['vsym::any_' + ty] = m_any_int(ty)
    M['vsym::any_bool'] = m_any_bool; M['vsym::any_str'] = m_any_str; M['vsym::any_token'] = m_any_token; M['vsym::any_ascii'] = m_any_ascii; M['vsym::choice'] = m_choice; M['vsym::hash_u64'] = m_hash_u64; M['vsym::end_thread'] = m_end_thread; M['vsym::run_until_end'] = m_run_until_end; M['vsym::param'] = m_param
    M['vsym::assume'] = m_assume; M['vsym::check'] = m_check; M['vsym::cover'] = m_cover; M['vsym::tag'] = m_tag; M['vsym::tag_i'] = m_tag_i
    M['vsym::expect_panic'] = m_expect_panic; M['vsym::spawn'] = m_spawn; M['vsym::join'] = m_join; M['vsym::yield_now'] = m_yield; M['vsym::current_tid'] = m_current_tid; M['vsym::set_cooperative'] = m_set_coop; M['vsym::is_cooperative'] = m_is_coop; M['vsym::spawn_suspended'] = m_spawn_suspended; M['vsym::resume'] = m_resume; M['vsym::suspend'] = m_suspend; M['vsym::take'] = m_take; M['vsym::block_on_lock'] = m_block_on_lock
    for k in [k for k in M if k.startswith('vsym::')]: M[k[6:]] = M[k]
    M['<String as From<&str>>::from'] = m_string_from
    M['<String as Deref>::deref'] = m_deref_string
    M['<String as Clone>::clone'] = m_clone
    M['<String as ToString>::to_string'] = m_to_string; M['<str as ToString>::to_string'] = m_to_string
    M['format'] = m_format; M['must_use'] = m_ident; M['String::as_str'] = m_deref_string
    M['<String as From<String>>::from'] = m_string_from; M['String::new'] = lambda ip,c,a: ''
    M['<&str as Into<String>>::into'] = m_string_from
    M['Vec::new'] = m_vec_new; M['Vec::push'] = m_vec_push; M['Vec::len'] = m_vec_len
    ip.pattern_models = [
        (re.compile(r'impl str>::starts_with$'), m_starts_with), (re.compile(r'impl str>::ends_with$'), m_ends_with),
        (re.compile(r'impl str>::contains$'), m_contains), (re.compile(r'impl str>::replace$'), m_replace), (re.compile(r'impl str>::replacen$'), m_replacen),
        (re.compile(r'impl str>::trim_end_matches$'), m_trim_end_matches), (re.compile(r'impl str>::trim_matches$'), m_trim_matches),
        (re.compile(r'impl str>::splitn$'), m_splitn), (re.compile(r'impl str>::split$'), m_split), (re.compile(r'(SplitN|Split)<.* as Iterator>::next$'), m_splitn_next),
        (re.compile(r'impl str>::len$|^String::len$'), m_len),
        (re.compile(r'as PartialEq(<.*>)?>::eq$'), m_generic_eq), (re.compile(r'as PartialEq(<.*>)?>::ne$'), lambda ip, c, a: ip.bnot(m_generic_eq(ip, c, a))),
        (re.compile(r'^(Option|Result)::unwrap$|^(Option|Result)::expect$'), m_unwrap), (re.compile(r'^(Option|Result)::unwrap_or$'), m_unwrap_or),
        (re.compile(r'impl [iu]\d+>::from_str_radix$'), m_from_str_radix), (re.compile(r'impl str>::parse$'), m_parse),
        (re.compile(r'Argument::new_(display|debug)$'), m_argument_new), (re.compile(r'^Arguments::(new|from_str)'), m_arguments_new),
        (re.compile(r'^<[A-Z_0-9]+ as Deref>::deref$'), m_lazy_deref),
        (re.compile(r'as Index(Mut)?<usize>>::index(_mut)?$'), m_vec_index),
        (re.compile(r'as Borrow<.*>>::borrow$'), m_borrow),
        (re.compile(r' as ToString>::to_string$'), m_to_string),
    ]

# ---- second batch: cells, vec/slice iterators, option combinators
def m_unsafecell_new(ip, c, a): return Agg('UnsafeCell', None, [Cell(a[0])])
def m_unsafecell_get(ip, c, a):
    u = a[0]
    while isinstance(u, Ref): u = u.cell.v
    return Ref(u.fields[0])
def m_cell_new(ip, c, a): return Agg('Cell', None, [Cell(a[0])])
def m_cell_get(ip, c, a):
    u = a[0]
    while isinstance(u, Ref): u = u.cell.v
    return deep_copy_val(u.fields[0].v)
def m_cell_set(ip, c, a):
    u = a[0]
    while isinstance(u, Ref): u = u.cell.v
    u.fields[0].v = a[1]; return UNIT
def m_vec_deref(ip, c, a): return a[0]
def m_slice_iter(ip, c, a):
    v = vec_of(a[0])
    return Agg('SliceIter', None, [Cell(v if isinstance(v, list) else v.fields[0].v), Cell(0)])
def m_slice_iter_next(ip, c, a):
    it = a[0].cell.v; lst = it.fields[0].v; i = it.fields[1].v
    if i >= len(lst): return OPT_NONE()
    it.fields[1].v = i + 1; return opt_some(Ref(lst[i]))
def m_option_map(ip, c, a):
    o, f = a
    if o.variant == 'None': return OPT_NONE()
    return opt_some(ip.call_value(f, [o.fields[0].v]))
def m_vec_remove(ip, c, a):
    lst = vec_of(a[0]).fields[0].v; i = a[1]
    if i >= len(lst): raise Panic("removal index out of bounds")
    return lst.pop(i).v
def m_vec_insert(ip, c, a):
    lst = vec_of(a[0]).fields[0].v; i = a[1]
    if is_sym(i): raise Unsupported("symbolic insert index")
    if i > len(lst): raise Panic("insertion index (is %d) should be <= len (is %d)" % (i, len(lst)))
    lst.insert(i, Cell(a[2])); return UNIT
def m_mem_replace(ip, c, a):
    old = a[0].cell.v; a[0].cell.v = a[1]; return old
def m_arc_new(ip, c, a): return Agg('Arc', None, [Cell(a[0])])
def m_arc_deref(ip, c, a):
    u = a[0]
    while isinstance(u, Ref): u = u.cell.v
    return Ref(u.fields[0])
def m_atomic_new(ip, c, a): return Agg('Atomic', None, [Cell(a[0])])
def m_atomic_load(ip, c, a):
    u = a[0]
    while isinstance(u, Ref): u = u.cell.v
    return u.fields[0].v
def m_atomic_store(ip, c, a):
    u = a[0]
    while isinstance(u, Ref): u = u.cell.v
    old = u.fields[0].v; u.fields[0].v = a[1]; return old

def install2(ip):
    ip.pattern_models += [
        (re.compile(r'^UnsafeCell::new$'), m_unsafecell_new), (re.compile(r'^UnsafeCell::get$'), m_unsafecell_get),
        (re.compile(r'^Cell::new$'), m_cell_new), (re.compile(r'^Cell::get$'), m_cell_get), (re.compile(r'^Cell::set$'), m_cell_set),
        (re.compile(r'^<Vec<.*> as Deref(Mut)?>::deref(_mut)?$'), m_vec_deref),
        (re.compile(r'impl \[.*\]>::iter(_mut)?$'), m_slice_iter), (re.compile(r'^<std::slice::Iter(Mut)?<.*> as Iterator>::next$'), m_slice_iter_next),
        (re.compile(r'^Option::map$'), m_option_map), (re.compile(r'^Vec::remove$'), m_vec_remove), (re.compile(r'^Vec::insert$'), m_vec_insert),
        (re.compile(r'^std::mem::replace$'), m_mem_replace),
        (re.compile(r'^Arc::new$'), m_arc_new), (re.compile(r'^<Arc<.*> as Deref>::deref$'), m_arc_deref),
        (re.compile(r'^Atomic::new$'), m_atomic_new), (re.compile(r'^Atomic::load$'), m_atomic_load), (re.compile(r'^Atomic::(store|swap)$'), m_atomic_store),
    ]

# ---- third batch
def unref(v):
    while isinstance(v, Ref): v = v.cell.v
    return v
def m_dur_from_nanos(ip, c, a): return Agg('Duration', None, [Cell(a[0])])
def m_dur_from_millis(ip, c, a): return Agg('Duration', None, [Cell(a[0] * 1000000 if not is_sym(a[0]) else T("(* %s 1000000)", 'Int', a[0].s))])
def m_dur_as_nanos(ip, c, a): return unref(a[0]).fields[0].v
def m_dur_as_millis(ip, c, a):
    n = unref(a[0]).fields[0].v
    return n // 1000000 if not is_sym(n) else T("(div %s 1000000)", 'Int', n.s)
def m_result_expect(ip, c, a): return m_unwrap(ip, c, a)
def clone_value(ip, v):
    if isinstance(v, Agg):
        if v.ty == 'Arc': return v
        if v.ty in ('Vec',): return Agg('Vec', None, [Cell([Cell(clone_value(ip, x.v)) for x in v.fields[0].v])])
        if v.ty in ('Option', 'Result', 'tuple'): return Agg(v.ty, v.variant, [Cell(clone_value(ip, x.v)) for x in v.fields], v.names)
        d = ip.resolve("<%s as Clone>::clone" % v.ty)
        if d is not None: return ip.call_fn(d, [Ref(Cell(v))])
        return Agg(v.ty, v.variant, [Cell(clone_value(ip, x.v)) for x in v.fields], v.names)
    return v
def m_clone_generic(ip, c, a): return clone_value(ip, unref(a[0]))
def m_vec_insert_at(ip, c, a): vec_of(a[0]).fields[0].v.insert(a[1], Cell(a[2])); return UNIT
def m_option_is_some(ip, c, a): return unref(a[0]).variant == 'Some'
def m_option_is_none(ip, c, a): return unref(a[0]).variant == 'None'
def m_i32_to_string(ip, c, a):
    v = unref(a[0])
    if isinstance(v, ByteOf): v = ip.byte_term(v)
    if not is_sym(v): return str(v)
    m = re.match(r'^<([iu](?:\d+|size)) as ', c)
    return IntStr(v, m.group(1) if m else None)
def install3(ip):
    ip.pattern_models = [
        (re.compile(r'^Duration::from_nanos$'), m_dur_from_nanos), (re.compile(r'^Duration::from_millis$'), m_dur_from_millis),
        (re.compile(r'^Duration::as_nanos$'), m_dur_as_nanos), (re.compile(r'^Duration::as_millis$'), m_dur_as_millis),
        (re.compile(r'^<(String|str) as Clone>::clone$'), m_clone),
        (re.compile(r'^<(Vec|Option|Result|Arc)<.*> as Clone>::clone$'), m_clone_generic),
        (re.compile(r'^<[iu](\d+|size) as ToString>::to_string$'), m_i32_to_string),
        (re.compile(r'^Option::is_some$'), m_option_is_some), (re.compile(r'^Option::is_none$'), m_option_is_none),
    ] + ip.pattern_models

# ---- fourth batch: fmt
def decode_bytes_literal(s):
    # s like b"\nreplicate \xc0\x01 \xc0\x00"
    body = s[2:-1]; out = bytearray(); i = 0
    while i < len(body):
        c = body[i]
        if c == '\\':
            n = body[i+1]
            if n == 'x': out.append(int(body[i+2:i+4], 16)); i += 4
            elif n == 'n': out.append(10); i += 2
            elif n == 't': out.append(9); i += 2
            elif n == 'r': out.append(13); i += 2
            elif n == '0': out.append(0); i += 2
            elif n in '\\"\'': out.append(ord(n)); i += 2
            else: raise Unsupported("escape " + body[i:i+4])
        else:
            out.extend(c.encode()); i += 1
    return bytes(out)
def display_value(ip, v, ity=None):
    v = unref(v)
    if isinstance(v, (str, Term)) and not (isinstance(v, Term) and v.sort != 'String'): return v
    if isinstance(v, bool): return "true" if v else "false"
    if isinstance(v, int): return str(v)
    if isinstance(v, float): return str(int(v)) if v == int(v) and abs(v) < 1e16 else repr(v)
    if isinstance(v, Term) and v.sort == 'Int': return IntStr(v, ity)
    if isinstance(v, Term) and v.sort == 'Bool': return T('(ite %s "true" "false")', 'String', v.s)
    if isinstance(v, Agg) and v.ty in ('Arc', 'Box') and v.fields: return display_value(ip, v.fields[0].v, ity)
    if isinstance(v, Agg):
        d = ip.resolve("<%s as Display>::fmt" % v.ty)
        if d is None: raise Unsupported("Display for " + v.ty)
        f = Agg('Formatter', None, [Cell("")])
        ip.call_fn(d, [Ref(Cell(v)), Ref(Cell(f))])
        return f.fields[0].v
    raise Unsupported("display of %r" % (v,))
def format_arguments(ip, a):
    a = unref(a)
    if len(a.fields) == 1: return val_of_strlike(a.fields[0].v)   # from_str
    tmpl = a.fields[0].v; args = unref(a.fields[1].v)
    if isinstance(tmpl, Ref): tmpl = unref(tmpl)
    b = decode_bytes_literal(tmpl); i = 0; nxt = 0; parts = []
    while True:
        n = b[i]; i += 1
        if n == 0: break
        if n < 0x80: parts.append(b[i:i+n].decode()); i += n
        elif n == 0x80:
            ln = b[i] | (b[i+1] << 8); i += 2; parts.append(b[i:i+ln].decode()); i += ln
        else:
            if n & 0x01: i += 4
            if n & 0x02: i += 2
            if n & 0x04: i += 2
            idx = nxt
            if n & 0x08: idx = b[i] | (b[i+1] << 8); i += 2
            nxt = idx + 1
            arg = args[idx].v
            parts.append(display_value(ip, arg.fields[0].v, arg.fields[1].v if len(arg.fields) > 1 else None))
    return sconcat(parts)
def m_panic_fmt(ip, c, a):
    try: msg = format_arguments(ip, a[0])
    except (Unsupported, AttributeError, IndexError, TypeError): msg = "panic with formatted message"
    if is_sym(msg):
        # keep the concrete parts of the message (the panic class); symbolic parts are elided
        msg = "".join(q if isinstance(q, str) else "{}" for q in parts_of(msg))
    raise Panic(msg)
def m_format2(ip, c, a): return format_arguments(ip, a[0])
def m_args_to_string(ip, c, a): return format_arguments(ip, a[0])
def m_formatter_write_fmt(ip, c, a):
    f = unref(a[0]); f.fields[0].v = sconcat([f.fields[0].v, format_arguments(ip, a[1])]); return res_ok(UNIT)
def m_formatter_write_str(ip, c, a):
    f = unref(a[0]); f.fields[0].v = sconcat([f.fields[0].v, val_of_strlike(a[1])]); return res_ok(UNIT)
def m_concat(ip, c, a):
    lst = unref(a[0]); items = lst if isinstance(lst, list) else lst.fields[0].v
    return sconcat([val_of_strlike(x.v) for x in items])
def m_mem_forget(ip, c, a): return UNIT
def m_mem_drop(ip, c, a): ip.drop_value(a[0]); return UNIT
def m_trim(ip, c, a):
    s = val_of_strlike(a[0])
    if not is_sym(s): return s.strip()
    raise Unsupported("trim of symbolic string")
def m_as_cast_f64(ip, c, a): return float(a[0])
def install4(ip):
    ip.models['format'] = m_format2
    ip.pattern_models = [
        (re.compile(r'^<Arguments<.*> as ToString>::to_string$'), m_args_to_string),
        (re.compile(r'^Formatter::write_fmt$'), m_formatter_write_fmt), (re.compile(r'^Formatter::write_str$'), m_formatter_write_str),
        (re.compile(r'impl \[.*\]>::concat$'), m_concat), (re.compile(r'^std::mem::forget$'), m_mem_forget), (re.compile(r'^std::mem::drop$|^drop$'), m_mem_drop),
        (re.compile(r'impl str>::trim$'), m_trim),
    ] + ip.pattern_models

# ---- fifth batch: iterators
def m_into_iter(ip, c, a):
    v = a[0]
    if isinstance(v, Ref):
        t = unref(v)
        if isinstance(t, Agg) and t.ty == 'Vec': return Agg('SliceIter', None, [Cell(t.fields[0].v), Cell(0)])
        if isinstance(t, list): return Agg('SliceIter', None, [Cell(t), Cell(0)])
        if isinstance(t, Agg) and t.ty == 'HashMap':
            d = ip.resolve("vstd::vmap::HashMap::iter"); return ip.call_fn(d, [v])
        return v
    if isinstance(v, Agg) and v.ty == 'Vec': return Agg('VecIntoIter', None, [Cell(v.fields[0].v), Cell(0)])
    if isinstance(v, list): return Agg('VecIntoIter', None, [Cell(v), Cell(0)])
    if isinstance(v, Agg) and v.ty == 'HashMap':
        # by value (shim: self.items.into_iter()): the (key, value) pairs in insertion order
        items = v.fields[0].v
        lst = items if isinstance(items, list) else items.fields[0].v
        return Agg('VecIntoIter', None, [Cell(list(lst)), Cell(0)])
    return v
def m_vec_into_iter_next(ip, c, a):
    it = unref(a[0]); lst = it.fields[0].v; i = it.fields[1].v
    if i >= len(lst): return OPT_NONE()
    it.fields[1].v = i + 1; return opt_some(lst[i].v)
def iter_next(ip, it):
    """generic next on any iterator value (Ref to it)"""
    t = unref(it)
    if t.ty == 'SliceIter': return m_slice_iter_next(ip, '', [it])
    if t.ty == 'VecIntoIter': return m_vec_into_iter_next(ip, '', [it])
    if t.ty == 'Map':
        r = iter_next(ip, Ref(t.fields[0]))
        if r.variant == 'None': return r
        return opt_some(ip.call_value(t.fields[1].v, [r.fields[0].v]))
    if t.ty == 'Filter':
        while True:
            r = iter_next(ip, Ref(t.fields[0]))
            if r.variant == 'None': return r
            keep = ip.call_value(t.fields[1].v, [Ref(Cell(r.fields[0].v))])
            if ip.branch(keep): return r
    if t.ty == 'Enumerate':
        r = iter_next(ip, Ref(t.fields[0]))
        if r.variant == 'None': return r
        i = t.fields[1].v; t.fields[1].v = i + 1
        return opt_some(Agg('tuple', None, [Cell(i), Cell(r.fields[0].v)]))
    d = ip.resolve("<%s as Iterator>::next" % t.ty)
    if d: return ip.call_fn(d, [it])
    raise Unsupported("next on " + t.ty)
def m_iter_next(ip, c, a): return iter_next(ip, a[0])
def m_iter_map(ip, c, a): return Agg('Map', None, [Cell(a[0]), Cell(a[1])])
def m_iter_filter(ip, c, a): return Agg('Filter', None, [Cell(a[0]), Cell(a[1])])
def m_iter_enumerate(ip, c, a): return Agg('Enumerate', None, [Cell(a[0]), Cell(0)])
def m_iter_collect(ip, c, a):
    it = Ref(Cell(a[0])); out = []
    while True:
        r = iter_next(ip, it)
        if r.variant == 'None': break
        out.append(Cell(r.fields[0].v))
    if 'Vec<' in c or 'collect::<Vec' in c: return Agg('Vec', None, [Cell(out)])
    raise Unsupported("collect into " + c)
def m_iter_fold(ip, c, a):
    it = Ref(Cell(a[0])); acc = a[1]
    while True:
        r = iter_next(ip, it)
        if r.variant == 'None': return acc
        acc = ip.call_value(a[2], [acc, r.fields[0].v])
def m_iter_any(ip, c, a):
    it = a[0] if isinstance(a[0], Ref) else Ref(Cell(a[0]))
    while True:
        r = iter_next(ip, it)
        if r.variant == 'None': return False
        if ip.branch(ip.call_value(a[1], [r.fields[0].v])): return True
def m_iter_for_each(ip, c, a):
    it = Ref(Cell(a[0]))
    while True:
        r = iter_next(ip, it)
        if r.variant == 'None': return UNIT
        ip.call_value(a[1], [r.fields[0].v])
def m_vec_iter(ip, c, a): return m_slice_iter(ip, c, a)
def m_slice_iter_len(ip, c, a):
    it = unref(a[0]); return len(it.fields[0].v) - it.fields[1].v
def install5(ip):
    ip.pattern_models = [
        (re.compile(r' as IntoIterator>::into_iter$'), m_into_iter),
        (re.compile(r'^<std::(slice::Iter|vec::IntoIter)<.*> as ExactSizeIterator>::len$'), m_slice_iter_len),
        (re.compile(r'^<std::vec::IntoIter<.*> as Iterator>::next$'), m_vec_into_iter_next),
        (re.compile(r'^<(Map|Filter|Enumerate)<.*> as Iterator>::next$'), m_iter_next),
        (re.compile(r' as Iterator>::map$'), m_iter_map), (re.compile(r' as Iterator>::filter$'), m_iter_filter),
        (re.compile(r' as Iterator>::enumerate$'), m_iter_enumerate), (re.compile(r' as Iterator>::collect$'), m_iter_collect),
        (re.compile(r' as Iterator>::fold$'), m_iter_fold), (re.compile(r' as Iterator>::any$'), m_iter_any),
        (re.compile(r' as Iterator>::for_each$'), m_iter_for_each),
    ] + ip.pattern_models

def install6(ip):
    ident = lambda ip, c, a: a[0]
    ip.pattern_models = [
        (re.compile(r'impl f64>::(to_bits|from_bits)$'), ident),
    ] + ip.pattern_models

# ---- sixth batch
def m_vec_sort(ip, c, a):
    lst = vec_of(a[0]) ; items = lst if isinstance(lst, list) else lst.fields[0].v
    vals = [x.v for x in items]
    if any(is_sym(v) for v in vals):
        # insertion sort; lexicographic order by code point (= UTF-8 byte order) decided by the solver
        out = []
        for v in vals:
            i = len(out)
            while i > 0:
                a, b = out[i - 1], v
                if isinstance(a, (str, Term)) and isinstance(b, (str, Term)) and (getattr(a, 'sort', 'String') == 'String') and (getattr(b, 'sort', 'String') == 'String'):
                    gt = T("(str.< %s %s)", 'Bool', smt_str(b), smt_str(a)) if (is_sym(a) or is_sym(b)) else (b < a)
                else: gt = ip.binop(None, 'Lt', b, a, None)
                if ip.branch(gt): i -= 1
                else: break
            out.insert(i, v)
        for cell, v in zip(items, out): cell.v = v
        return UNIT
    vals.sort()
    for cell, v in zip(items, vals): cell.v = v
    return UNIT
def m_vec_join(ip, c, a):
    lst = vec_of(a[0]); items = lst if isinstance(lst, list) else lst.fields[0].v
    sep = val_of_strlike(a[1]); parts = []
    for i, x in enumerate(items):
        if i: parts.append(sep)
        parts.append(val_of_strlike(x.v))
    return sconcat(parts)
def m_vec_last(ip, c, a):
    lst = vec_of(a[0]); items = lst if isinstance(lst, list) else lst.fields[0].v
    return opt_some(Ref(items[-1])) if items else OPT_NONE()
def m_vec_is_empty(ip, c, a):
    lst = vec_of(a[0]); items = lst if isinstance(lst, list) else lst.fields[0].v
    return len(items) == 0
def m_vec_pop(ip, c, a):
    items = vec_of(a[0]).fields[0].v
    return opt_some(items.pop().v) if items else OPT_NONE()
def m_atomic_fetch_add(ip, c, a):
    u = unref(a[0]); old = u.fields[0].v; u.fields[0].v = old + a[1]; return old
def m_atomic_fetch_sub(ip, c, a):
    u = unref(a[0]); old = u.fields[0].v
    if is_sym(old) or is_sym(a[1]): raise Unsupported("symbolic atomic fetch_sub")
    u.fields[0].v = (old - a[1]) % (1 << 64); return old
def m_atomic_cmpxchg(ip, c, a):
    u = unref(a[0]); old = u.fields[0].v
    if ip.branch(m_generic_eq(ip, c, [old, a[1]])): u.fields[0].v = a[2]; return res_ok(old)
    return res_err(old)
def m_atomic_get_mut(ip, c, a): return Ref(unref(a[0]).fields[0])
def m_string_add(ip, c, a): return sconcat([val_of_strlike(a[0]), val_of_strlike(a[1])])
def m_opaque(ip, c, a): return Agg('Opaque', None, [])
def m_const(v): return lambda ip, c, a: v
def m_result_is_ok(ip, c, a): return unref(a[0]).variant == 'Ok'
def m_option_as_ref(ip, c, a):
    o = unref(a[0])
    return opt_some(Ref(o.fields[0])) if o.variant == 'Some' else OPT_NONE()
def m_option_as_deref(ip, c, a):
    o = unref(a[0])
    return opt_some(val_of_strlike(o.fields[0].v)) if o.variant == 'Some' else OPT_NONE()
def install7(ip):
    ip.pattern_models = [
        (re.compile(r'^DefaultHasher::new$'), m_opaque), (re.compile(r'^thread_id::get$'), m_const(1)),
        (re.compile(r'^std::any::type_name$|^type_name$'), m_const("")),
        (re.compile(r'^<String as Add<&str>>::add$'), m_string_add),
        (re.compile(r'^Vec::with_capacity$'), m_vec_new), (re.compile(r'impl \[.*\]>::sort$'), m_vec_sort),
        (re.compile(r'impl \[.*\]>::join$'), m_vec_join), (re.compile(r'impl \[.*\]>::last$'), m_vec_last),
        (re.compile(r'^Vec::is_empty$|impl \[.*\]>::is_empty$'), m_vec_is_empty), (re.compile(r'^Vec::pop$'), m_vec_pop),
        (re.compile(r'impl \[.*\]>::len$'), m_vec_len),
        (re.compile(r'^Atomic::fetch_add$'), m_atomic_fetch_add), (re.compile(r'^Atomic::fetch_sub$'), m_atomic_fetch_sub), (re.compile(r'^Atomic::compare_exchange$'), m_atomic_cmpxchg), (re.compile(r'^Atomic::get_mut$'), m_atomic_get_mut),
        (re.compile(r'^Result::is_ok$'), m_result_is_ok), (re.compile(r'^Option::as_ref$'), m_option_as_ref), (re.compile(r'^Option::as_deref$'), m_option_as_deref),
    ] + ip.pattern_models

def m_dyn_fn_call(ip, c, a):
    f = unref(a[0]); args = [x.v for x in a[1].fields] if isinstance(a[1], Agg) else []
    return ip.call_value(f, args)
def install8(ip):
    ip.pattern_models = [(re.compile(r'^<dyn (for<.*?> )?Fn.* as Fn(Mut|Once)?<.*>>::call(_mut|_once)?$'), m_dyn_fn_call), (re.compile(r'^<[A-Z]\w* as Fn(Mut|Once)?<.*>>::call(_mut|_once)?$'), m_dyn_fn_call)] + ip.pattern_models

def m_arc_try_unwrap(ip, c, a): return res_ok(a[0].fields[0].v)
def m_arc_ptr_eq(ip, c, a): return unref(a[0]) is unref(a[1])
def install9(ip):
    ip.pattern_models = [(re.compile(r'^Arc::try_unwrap$'), m_arc_try_unwrap), (re.compile(r'^Arc::ptr_eq$'), m_arc_ptr_eq)] + ip.pattern_models

# ---- seventh batch: bytes, Try, dyn dispatch helpers
def m_to_le_bytes(ip, c, a):
    v = a[0]; ty = re.search(r'impl (\w+)>', c).group(1); n = {'u8':1,'i8':1,'u16':2,'i16':2,'u32':4,'i32':4,'u64':8,'i64':8,'usize':8,'isize':8,'u128':16,'i128':16}[ty]
    if not is_sym(v):
        return [Cell(b) for b in (v % (1 << (8*n))).to_bytes(n, 'little')]
    return [Cell(ByteOf(v, i)) for i in range(n)]
def m_from_le_bytes(ip, c, a):
    lst = a[0] if isinstance(a[0], list) else unref(a[0]); vals = [x.v for x in lst]
    ty = re.search(r'impl (\w+)>', c).group(1); signed = ty.startswith('i'); n = len(vals)
    if all(isinstance(b, int) for b in vals):
        return int.from_bytes(bytes(vals), 'little', signed=signed)
    if all(isinstance(b, ByteOf) for b in vals) and all(b.t is vals[0].t and b.i == k for k, b in enumerate(vals)):
        return vals[0].t
    # bytes of different origins (torn / overwritten record): recombine arithmetically
    parts = []
    for k, b in enumerate(vals):
        if isinstance(b, int): t = str(b)
        elif isinstance(b, ByteOf): t = ip.byte_term(b).s
        elif isinstance(b, CharOf): t = "(str.to_code (str.at %s %d))" % (b.t.s, b.i)
        elif isinstance(b, Term): t = b.s
        else: raise Unsupported("from_le_bytes of %r" % (b,))
        parts.append("(* %s %d)" % (t, 256 ** k))
    u = "(+ %s)" % " ".join(parts)
    if signed:
        half = 256 ** n // 2
        return ip.name_term(Term("(ite (>= %s %d) (- %s %d) %s)" % (u, half, u, 256 ** n, u), 'Int'), 'le')
    return ip.name_term(Term(u, 'Int'), 'le')
def m_try_branch(ip, c, a):
    r = a[0]
    if r.variant in ('Ok', 'Some'): return Agg('ControlFlow', 'Continue', [Cell(r.fields[0].v)])
    return Agg('ControlFlow', 'Break', [Cell(r)])
def m_from_residual(ip, c, a): return a[0]
def m_io_error(ip, c, a): return Agg('IoError', None, [])
def m_cmp_max(ip, c, a):
    x, y = a
    if not is_sym(x) and not is_sym(y): return max(x, y)
    return T("(ite (>= %s %s) %s %s)", 'Int', smt_int(x), smt_int(y), smt_int(x), smt_int(y))
def install10(ip):
    ip.pattern_models = [
        (re.compile(r'impl [iu](\d+|size)>::to_le_bytes$'), m_to_le_bytes), (re.compile(r'impl [iu](\d+|size)>::from_le_bytes$'), m_from_le_bytes),
        (re.compile(r' as Try>::branch$'), m_try_branch), (re.compile(r' as FromResidual<.*>>::from_residual$'), m_from_residual),
        (re.compile(r'^<std::io::Error as From<.*>>::from$'), m_io_error), (re.compile(r'^std::cmp::max$'), m_cmp_max),
    ] + ip.pattern_models

def m_as_ref_str(ip, c, a): return val_of_strlike(a[0])
def m_string_push_str(ip, c, a):
    cell = a[0].cell; cell.v = sconcat([cell.v, val_of_strlike(a[1])]); return UNIT
def m_str_index_rangefrom(ip, c, a):
    s = val_of_strlike(a[0]); r = a[1]
    start = r.fields[0].v
    if not is_sym(s) and not is_sym(start):
        b = s.encode()
        if start > len(b): raise Panic("start byte index %d is out of bounds of string" % start)
        try: return b[start:].decode()
        except UnicodeDecodeError: raise Panic("byte index %d is not a char boundary" % start)
    # symbolic (ASCII) text or symbolic start: slicing past the end panics
    inb = T("(<= %s (str.len %s))", 'Bool', smt_int(start), smt_str(s))
    if not ip.branch(inb): raise Panic("start byte index is out of bounds of string")
    return T("(str.substr %s %s (str.len %s))", 'String', smt_str(s), smt_int(start), smt_str(s))
def m_str_index_range(ip, c, a):
    s = val_of_strlike(a[0]); r = a[1]
    if is_sym(s): raise Unsupported("range index of symbolic string")
    b = s.encode(); n = len(b)
    if r.ty == 'RangeTo': lo, hi = 0, r.fields[0].v
    elif r.ty == 'RangeFull': lo, hi = 0, n
    elif r.ty == 'RangeFrom': lo, hi = r.fields[0].v, n
    else: lo, hi = r.fields[0].v, r.fields[1].v
    if is_sym(lo) or is_sym(hi): raise Unsupported("symbolic string range")
    if lo > hi or hi > n: raise Panic("byte index %d is out of bounds of string" % hi)
    try: return b[lo:hi].decode()
    except UnicodeDecodeError: raise Panic("byte index is not a char boundary")
def m_rsplit_next_last(ip, c, a): raise Unsupported("rsplit")
def install11(ip):
    ip.pattern_models = [
        (re.compile(r' as AsRef<str>>::as_ref$'), m_as_ref_str),
        (re.compile(r'^String::push_str$'), m_string_push_str),
        (re.compile(r'^<(str|String) as Index<(std::ops::)?RangeFrom<usize>>>::index$'), m_str_index_rangefrom),
        (re.compile(r'^<(str|String) as Index<(std::ops::)?Range(To|Full)?(<usize>)?>>::index$'), m_str_index_range),
        (re.compile(r'^<u64 as From<u(8|16|32|64)>>::from$|^<usize as From<.*>>::from$|^<String as From<&String>>::from$'), lambda ip, c, a: a[0]),
    ] + ip.pattern_models

# ---- eighth batch: more iterator / option / result / vec surface
def items_of(v):
    v = unref(v)
    if isinstance(v, list): return v
    if isinstance(v, Agg) and v.ty == 'Vec': return v.fields[0].v
    raise Unsupported("items of %r" % (v,))
def as_iter_ref(x): return x if isinstance(x, Ref) else Ref(Cell(x))
def iter_next2(ip, it):
    t = unref(it)
    if t.ty == 'SplitN': return m_splitn_next(ip, '', [it])
    if t.ty == 'FilterMap':
        while True:
            r = iter_next2(ip, Ref(t.fields[0]))
            if r.variant == 'None': return r
            o = ip.call_value(t.fields[1].v, [r.fields[0].v])
            if not (isinstance(o, Agg) and o.ty == 'Option'): raise Unsupported("filter_map / flat_map closure returning %r" % (o,))
            if o.variant == 'Some': return o
    if t.ty == 'Cloned':
        r = iter_next2(ip, Ref(t.fields[0]))
        if r.variant == 'None': return r
        return opt_some(clone_value(ip, unref(r.fields[0].v)))
    if t.ty == 'Rev':
        lst = t.fields[0].v; i = t.fields[1].v
        if i <= 0: return OPT_NONE()
        t.fields[1].v = i - 1; return opt_some(Ref(lst[i - 1]) if t.fields[2].v else lst[i - 1].v)
    if t.ty == 'Skip':
        while t.fields[1].v > 0:
            t.fields[1].v -= 1
            r = iter_next2(ip, Ref(t.fields[0]))
            if r.variant == 'None': return r
        return iter_next2(ip, Ref(t.fields[0]))
    if t.ty == 'Take':
        if t.fields[1].v <= 0: return OPT_NONE()
        t.fields[1].v -= 1
        return iter_next2(ip, Ref(t.fields[0]))
    if t.ty == 'Zip':
        a = iter_next2(ip, Ref(t.fields[0]))
        if a.variant == 'None': return a
        b = iter_next2(ip, Ref(t.fields[1]))
        if b.variant == 'None': return b
        return opt_some(Agg('tuple', None, [Cell(a.fields[0].v), Cell(b.fields[0].v)]))
    if t.ty == 'Chars':
        s = t.fields[0].v; i = t.fields[1].v
        if is_sym(s):
            # symbolic string: fix its length on this path (forks), then characters are code points (Int terms)
            if len(t.fields) < 3:
                flat = []
                for q in parts_of(s):
                    if isinstance(q, str): flat.extend(q)
                    else:
                        n = ip.strlen_concrete(q)
                        flat.extend(T('(str.to_code (str.at %s %d))', 'Int', q.s, k) for k in range(n))
                t.fields.append(Cell(flat))
            flat = t.fields[2].v
            if i >= len(flat): return OPT_NONE()
            t.fields[1].v = i + 1; return opt_some(flat[i])
        if i >= len(s): return OPT_NONE()
        t.fields[1].v = i + 1; return opt_some(s[i])
    if t.ty in ('RangeIter', 'Range'):
        i = t.fields[0].v; e = t.fields[1].v
        if is_sym(i) or is_sym(e):
            if not ip.branch(ip.binop(None, 'Lt', i, e, None)): return OPT_NONE()
        elif i >= e: return OPT_NONE()
        t.fields[0].v = ip.binop(None, 'Add', i, 1, None) if is_sym(i) else i + 1
        return opt_some(i)
    return iter_next(ip, it)
_old_iter_next = iter_next
def iter_next(ip, it):
    t = unref(it)
    if getattr(t, 'ty', None) in ('SplitN', 'FilterMap', 'Cloned', 'Rev', 'Skip', 'Take', 'Zip', 'Chars', 'RangeIter', 'Range'): return iter_next2(ip, it)
    return _old_iter_next(ip, it)
def m_iter_next_any(ip, c, a): return iter_next(ip, a[0])
def m_iter_filter_map(ip, c, a): return Agg('FilterMap', None, [Cell(a[0]), Cell(a[1])])
def m_iter_cloned(ip, c, a): return Agg('Cloned', None, [Cell(a[0])])
def m_iter_skip(ip, c, a): return Agg('Skip', None, [Cell(a[0]), Cell(a[1])])
def m_iter_take(ip, c, a): return Agg('Take', None, [Cell(a[0]), Cell(a[1])])
def m_iter_zip(ip, c, a): return Agg('Zip', None, [Cell(a[0]), Cell(m_into_iter(ip, c, [a[1]]))])
def m_iter_rev(ip, c, a):
    t = a[0]
    if isinstance(t, Agg) and t.ty in ('SliceIter', 'VecIntoIter'):
        lst = t.fields[0].v[t.fields[1].v:]
        return Agg('Rev', None, [Cell(lst), Cell(len(lst)), Cell(t.ty == 'SliceIter')])
    raise Unsupported("rev of " + repr(t)[:60])
def m_iter_count(ip, c, a):
    it = as_iter_ref(a[0]); n = 0
    while iter_next(ip, it).variant != 'None': n += 1
    return n
def m_iter_last(ip, c, a):
    it = as_iter_ref(a[0]); last = OPT_NONE()
    while True:
        r = iter_next(ip, it)
        if r.variant == 'None': return last
        last = r
def m_iter_find(ip, c, a):
    it = as_iter_ref(a[0])
    while True:
        r = iter_next(ip, it)
        if r.variant == 'None': return r
        if ip.branch(ip.call_value(a[1], [Ref(Cell(r.fields[0].v))])): return r
def m_iter_position(ip, c, a):
    it = as_iter_ref(a[0]); i = 0
    while True:
        r = iter_next(ip, it)
        if r.variant == 'None': return r
        if ip.branch(ip.call_value(a[1], [r.fields[0].v])): return opt_some(i)
        i += 1
def m_iter_all(ip, c, a):
    it = as_iter_ref(a[0])
    while True:
        r = iter_next(ip, it)
        if r.variant == 'None': return True
        if not ip.branch(ip.call_value(a[1], [r.fields[0].v])): return False
def m_iter_sum(ip, c, a):
    it = as_iter_ref(a[0]); acc = 0
    while True:
        r = iter_next(ip, it)
        if r.variant == 'None': return acc
        acc = ip.binop(None, 'Add', acc, unref(r.fields[0].v), None)
def m_collect_any(ip, c, a):
    it = as_iter_ref(a[0]); out = []
    while True:
        r = iter_next(ip, it)
        if r.variant == 'None': break
        out.append(Cell(r.fields[0].v))
    m = re.search(r'collect::<(.*)>$', c)
    target = m.group(1) if m else ''
    if target.startswith(('Vec<', 'std::vec::Vec<')) or target == 'Vec<_>': return Agg('Vec', None, [Cell(out)])
    if target.startswith('String'):
        return sconcat([x.v if not isinstance(x.v, Ref) else unref(x.v) for x in out])
    if 'HashMap<' in target:
        d = ip.resolve('vstd::vmap::HashMap::new'); mp = ip.call_fn(d, [])
        ins = ip.resolve('vstd::vmap::HashMap::insert')
        for x in out: ip.call_fn(ins, [Ref(Cell(mp)), x.v.fields[0].v, x.v.fields[1].v])
        return mp
    raise Unsupported("collect into " + target)
def m_result_ok(ip, c, a):
    r = a[0]
    return opt_some(r.fields[0].v) if r.variant == 'Ok' else OPT_NONE()
def m_result_err(ip, c, a):
    r = a[0]
    return opt_some(r.fields[0].v) if r.variant == 'Err' else OPT_NONE()
def m_result_is_err(ip, c, a): return unref(a[0]).variant == 'Err'
def m_result_map_err(ip, c, a):
    r = a[0]
    return r if r.variant == 'Ok' else res_err(ip.call_value(a[1], [r.fields[0].v]))
def m_result_or_else(ip, c, a):
    r = a[0]
    return r if r.variant == 'Ok' else ip.call_value(a[1], [r.fields[0].v])
def m_result_and_then(ip, c, a):
    r = a[0]
    return ip.call_value(a[1], [r.fields[0].v]) if r.variant == 'Ok' else r
def m_result_map(ip, c, a):
    r = a[0]
    return res_ok(ip.call_value(a[1], [r.fields[0].v])) if r.variant == 'Ok' else r
def m_unwrap_or_else(ip, c, a):
    r = a[0]
    if r.variant in ('Some', 'Ok'): return r.fields[0].v
    return ip.call_value(a[1], [r.fields[0].v] if r.variant == 'Err' else [])
def m_unwrap_or_default(ip, c, a):
    r = a[0]
    if r.variant in ('Some', 'Ok'): return r.fields[0].v
    if 'String' in c: return ""
    return 0
def m_option_ok_or(ip, c, a):
    o = a[0]
    return res_ok(o.fields[0].v) if o.variant == 'Some' else res_err(a[1])
def m_option_and_then(ip, c, a):
    o = a[0]
    return ip.call_value(a[1], [o.fields[0].v]) if o.variant in ('Some', 'Ok') else o
def m_option_filter(ip, c, a):
    o = a[0]
    if o.variant != 'Some': return o
    return o if ip.branch(ip.call_value(a[1], [Ref(Cell(o.fields[0].v))])) else OPT_NONE()
def m_option_cloned(ip, c, a):
    o = a[0]
    return opt_some(clone_value(ip, unref(o.fields[0].v))) if o.variant == 'Some' else o
def m_option_as_mut(ip, c, a):
    o = unref(a[0])
    return opt_some(Ref(o.fields[0])) if o.variant == 'Some' else OPT_NONE()
def m_option_take(ip, c, a):
    cell = a[0].cell; old = cell.v; cell.v = OPT_NONE(); return old
def m_option_unwrap_unchecked(ip, c, a): return a[0].fields[0].v
def m_sort_by(ip, c, a):
    items = items_of(a[0]); f = a[1]
    vals = [x.v for x in items]
    out = []
    for v in vals:   # insertion sort (stable), comparator decides through branches
        i = len(out)
        while i > 0:
            o = ip.call_value(f, [Ref(Cell(out[i - 1])), Ref(Cell(v))])
            if o.variant == 'Greater': i -= 1
            else: break
        out.insert(i, v)
    for cell, v in zip(items, out): cell.v = v
    return UNIT
def m_ord_cmp(ip, c, a):
    x, y = unref(a[0]), unref(a[1])
    if isinstance(x, str) and isinstance(y, str): return Agg('Ordering', 'Less' if x < y else ('Equal' if x == y else 'Greater'), [])
    return ip.binop(None, 'Cmp', x, y, None)
def m_str_order(op):
    def f(ip, c, a):
        x, y = val_of_strlike(a[0]), val_of_strlike(a[1])
        if isinstance(x, str) and isinstance(y, str): return {'lt': x < y, 'le': x <= y, 'gt': x > y, 'ge': x >= y}[op]
        lt = T("(str.< %s %s)", 'Bool', smt_str(x), smt_str(y)); le = T("(str.<= %s %s)", 'Bool', smt_str(x), smt_str(y))
        return {'lt': lt, 'le': le, 'gt': T("(not %s)", 'Bool', le.s), 'ge': T("(not %s)", 'Bool', lt.s)}[op]
    return f
def m_vec_retain(ip, c, a):
    v = unref(a[0]); items = v.fields[0].v; keep = []
    for x in items:
        if ip.branch(ip.call_value(a[1], [Ref(x)])): keep.append(x)
    v.fields[0].v = keep; return UNIT
def m_vec_dedup(ip, c, a):
    v = unref(a[0]); items = v.fields[0].v; out = []
    for x in items:
        if out and ip.branch(m_generic_eq(ip, c, [out[-1].v, x.v])): continue
        out.append(x)
    v.fields[0].v = out; return UNIT
def m_vec_clear(ip, c, a): unref(a[0]).fields[0].v = []; return UNIT
def m_vec_truncate(ip, c, a): v = unref(a[0]); v.fields[0].v = v.fields[0].v[:a[1]]; return UNIT
def m_vec_extend(ip, c, a):
    v = unref(a[0]); it = as_iter_ref(m_into_iter(ip, c, [a[1]]))
    while True:
        r = iter_next(ip, it)
        if r.variant == 'None': return UNIT
        v.fields[0].v.append(Cell(r.fields[0].v))
def m_vec_contains(ip, c, a):
    for x in items_of(a[0]):
        if ip.branch(m_generic_eq(ip, c, [x.v, a[1]])): return True
    return False
def m_slice_index_range(ip, c, a):
    items = items_of(a[0]); r = a[1]
    n = len(items)
    if r.ty == 'RangeFrom': lo, hi = r.fields[0].v, n
    elif r.ty == 'RangeTo': lo, hi = 0, r.fields[0].v
    elif r.ty == 'RangeFull': lo, hi = 0, n
    else: lo, hi = r.fields[0].v, r.fields[1].v
    if is_sym(lo) or is_sym(hi): raise Unsupported("symbolic slice range")
    if lo > hi: raise Panic("slice index starts at %d but ends at %d" % (lo, hi))
    if hi > n: raise Panic("range end index %d out of range for slice of length %d" % (hi, n))
    return Ref(Cell(items[lo:hi]))
def m_slice_first(ip, c, a):
    items = items_of(a[0])
    return opt_some(Ref(items[0])) if items else OPT_NONE()
def m_slice_get(ip, c, a):
    items = items_of(a[0]); i = a[1]
    if is_sym(i): raise Unsupported("symbolic index")
    return opt_some(Ref(items[i])) if 0 <= i < len(items) else OPT_NONE()
def m_vec_from_elem(ip, c, a): return Agg('Vec', None, [Cell([Cell(deep_copy_val(a[0])) for _ in range(a[1])])])
def m_slice_to_vec(ip, c, a): return Agg('Vec', None, [Cell([Cell(clone_value(ip, x.v)) for x in items_of(a[0])])])
def m_vec_from_array(ip, c, a): return Agg('Vec', None, [Cell(list(items_of(a[0])))])
def m_box_new(ip, c, a): return Agg('Box', None, [Cell(a[0])])
def m_box_new_uninit(ip, c, a):
    mu = Agg('MaybeUninit', None, [Cell(UNIT), Cell(Agg('ManuallyDrop', None, [Cell(Agg('MaybeDangling', None, [Cell(None)]))]))])
    return Agg('BoxUninit', None, [Cell(Agg('Unique', None, [Cell(Ref(Cell(mu)))]))])
def m_box_assume_init_into_vec(ip, c, a):
    mu = a[0].fields[0].v.fields[0].v.cell.v
    return Agg('Vec', None, [Cell(list(mu.fields[1].v.fields[0].v.fields[0].v))])
def m_str_repeat(ip, c, a):
    s = val_of_strlike(a[0])
    if is_sym(s) or is_sym(a[1]): raise Unsupported('repeat of symbolic string')
    return s * a[1]
def m_chars(ip, c, a): return Agg('Chars', None, [Cell(val_of_strlike(a[0])), Cell(0)])
def m_str_is_empty(ip, c, a):
    s = val_of_strlike(a[0])
    if not is_sym(s): return s == ""
    if isinstance(s, SCat) and any(isinstance(q, str) for q in s.parts): return False
    return T('(= %s "")', 'Bool', s.s)
def m_string_from_utf8(ip, c, a):
    items = items_of(a[0]); vals = [x.v for x in items]
    if all(isinstance(b, int) for b in vals):
        try: return res_ok(bytes(vals).decode('utf-8'))
        except UnicodeDecodeError: return res_err(Agg('FromUtf8Error', None, []))
    parts = []
    for b in vals:
        if isinstance(b, int): parts.append(chr(b) if b < 128 else None)
        elif isinstance(b, Term) and b.sort == 'Int': parts.append(T('(str.from_code %s)', 'String', b.s))
        elif isinstance(b, CharOf): parts.append(b)
        else: raise Unsupported("from_utf8 of %r" % (b,))
    if any(p is None for p in parts): raise Unsupported("from_utf8 mixing symbolic and non-ASCII bytes")
    return res_ok(join_chars(ip, parts))
class CharOf:
    """i-th byte of a symbolic ASCII string of known concrete length"""
    __slots__ = ('t', 'i', 'n')
    def __init__(self, t, i, n): self.t = t; self.i = i; self.n = n
    def __repr__(self): return "CharOf(%s,%d)" % (self.t.s, self.i)
def join_chars(ip, parts):
    out = []; k = 0
    while k < len(parts):
        p = parts[k]
        if isinstance(p, CharOf) and p.i == 0 and k + p.n <= len(parts) and all(isinstance(parts[k + j], CharOf) and parts[k + j].t is p.t and parts[k + j].i == j for j in range(p.n)):
            out.append(p.t); k += p.n; continue
        if isinstance(p, CharOf): out.append(T('(str.at %s %d)', 'String', p.t.s, p.i))
        else: out.append(p)
        k += 1
    return sconcat(out)
def m_as_bytes(ip, c, a):
    s = val_of_strlike(a[0])
    if not is_sym(s): return Ref(Cell([Cell(b) for b in s.encode()]))
    out = []
    for q in parts_of(s):
        if isinstance(q, str): out.extend(Cell(b) for b in q.encode())
        else:
            n = known_len(ip, q)
            if n is None: n = ip.strlen_concrete(q)
            out.extend(Cell(CharOf(q, i, n)) for i in range(n))
    return Ref(Cell(out))
def m_string_hash(ip, c, a):
    """<String as Hash>::hash(&self, state): Hasher::write_str = write(bytes) followed by write_u8(0xff)"""
    h = a[1]; t = unref(h)
    w = ip.resolve('<%s as Hasher>::write' % t.ty)
    if w is None: raise Unsupported("Hash::hash into " + t.ty)
    b = m_as_bytes(ip, c, a).cell.v
    ip.call_fn(w, [h, Ref(Cell(b + [Cell(0xff)]))]); return UNIT
def m_str_bytes(ip, c, a): return Agg('VecIntoIter', None, [Cell(m_as_bytes(ip, c, a).cell.v), Cell(0)])
def m_vec_swap_remove(ip, c, a):
    lst = vec_of(a[0]).fields[0].v; i = a[1]
    if is_sym(i): raise Unsupported("symbolic swap_remove index")
    if i >= len(lst): raise Panic("swap_remove index (is %d) should be < len (is %d)" % (i, len(lst)))
    v = lst[i].v; last = lst.pop()
    if i < len(lst): lst[i] = last
    return v
def m_into_bytes(ip, c, a): return Agg('Vec', None, [Cell(m_as_bytes(ip, c, a).cell.v)])

def install12(ip):
    P = lambda rx, f: (re.compile(rx), f)
    ip.pattern_models = [
        P(r' as Iterator>::filter_map$', m_iter_filter_map), P(r' as Iterator>::flat_map$', m_iter_filter_map), P(r' as Iterator>::cloned$', m_iter_cloned), P(r' as Iterator>::skip$', m_iter_skip),
        P(r' as Iterator>::take$', m_iter_take), P(r' as Iterator>::zip$', m_iter_zip), P(r' as Iterator>::rev$', m_iter_rev),
        P(r' as Iterator>::count$', m_iter_count), P(r' as Iterator>::last$', m_iter_last), P(r' as Iterator>::find$', m_iter_find),
        P(r' as Iterator>::position$', m_iter_position), P(r' as Iterator>::all$', m_iter_all), P(r' as Iterator>::sum$', m_iter_sum),
        P(r' as Iterator>::collect$', m_collect_any),
        P(r'^<(FilterMap|Cloned|Rev|Skip|Take|Zip|Chars|std::str::Chars|std::iter::\w+|std::ops::Range)<.* as Iterator>::next$', m_iter_next_any),
        P(r'^<(std::str::)?Chars<.*> as Iterator>::next$', m_iter_next_any),
        P(r'^Result::ok$', m_result_ok), P(r'^Result::err$', m_result_err), P(r'^Result::is_err$', m_result_is_err), P(r'^Result::map_err$', m_result_map_err), P(r'^Result::or_else$', m_result_or_else), P(r'^Result::and_then$', m_result_and_then),
        P(r'^Result::map$', m_result_map), P(r'^(Option|Result)::unwrap_or_else$', m_unwrap_or_else), P(r'^(Option|Result)::unwrap_or_default$', m_unwrap_or_default),
        P(r'^Option::ok_or$', m_option_ok_or), P(r'^(Option|Result)::and_then$', m_option_and_then), P(r'^Option::cloned$', m_option_cloned), P(r'^Option::filter$', m_option_filter),
        P(r'^Option::as_mut$', m_option_as_mut), P(r'^Option::take$', m_option_take), P(r'^(Option|Result)::unwrap_unchecked$', m_option_unwrap_unchecked),
        P(r'impl \[.*\]>::sort_by$', m_sort_by), P(r'^<[iu](\d+|size) as Ord>::cmp$|^<(String|str) as Ord>::cmp$', m_ord_cmp),
        P(r'^Vec::retain$', m_vec_retain), P(r'^<&?(str|String) as PartialOrd(<.*>)?>::lt$', m_str_order('lt')), P(r'^<&?(str|String) as PartialOrd(<.*>)?>::le$', m_str_order('le')), P(r'^<&?(str|String) as PartialOrd(<.*>)?>::gt$', m_str_order('gt')), P(r'^<&?(str|String) as PartialOrd(<.*>)?>::ge$', m_str_order('ge')), P(r'^Vec::dedup$', m_vec_dedup), P(r'^Vec::clear$', m_vec_clear), P(r'^Vec::truncate$', m_vec_truncate),
        P(r'^<Vec<.*> as Extend<.*>>::extend$', m_vec_extend), P(r'impl \[.*\]>::contains$', m_vec_contains),
        P(r'^<(Vec<.*>|\[.*\]) as Index(Mut)?<(std::ops::)?Range(From|To|Full)?(<usize>)?>>::index(_mut)?$', m_slice_index_range),
        P(r'impl \[.*\]>::first$', m_slice_first), P(r'impl \[.*\]>::get$', m_slice_get),
        P(r'^std::vec::from_elem$|^from_elem$', m_vec_from_elem), P(r'impl \[.*\]>::to_vec$', m_slice_to_vec), P(r'impl \[.*\]>::into_vec$|^<Vec<.*> as From<\[.*\]>>::from$', m_vec_from_array),
        P(r'^Box::new$|^Box::<.*>::new$', m_box_new), P(r'^Box::new_uninit$', m_box_new_uninit), P(r'box_assume_init_into_vec_unsafe$', m_box_assume_init_into_vec), P(r'impl str>::chars$', m_chars), P(r'impl str>::repeat$', m_str_repeat), P(r'impl str>::is_empty$|^String::is_empty$', m_str_is_empty),
        P(r'^String::from_utf8$|^(core::str::|std::str::)?from_utf8$|converts::from_utf8$', m_string_from_utf8), P(r'impl str>::as_bytes$|^String::as_bytes$', m_as_bytes), P(r'^String::into_bytes$', m_into_bytes),
    ] + ip.pattern_models

# ---- futures: Pin / Box::pin / Waker / polling of coroutines
def m_box_pin(ip, c, a): return Agg('Pin', None, [Cell(Agg('Box', None, [Cell(a[0])]))])
def m_pin_new_unchecked(ip, c, a): return Agg('Pin', None, [Cell(a[0])])
def m_pin_as_mut(ip, c, a):
    p = unref(a[0]); inner = p.fields[0].v
    if isinstance(inner, Agg) and inner.ty == 'Box': return Agg('Pin', None, [Cell(Ref(inner.fields[0]))])
    return Agg('Pin', None, [Cell(inner)])
def m_pin_get_mut(ip, c, a): return a[0].fields[0].v
def m_waker_noop(ip, c, a): return Ref(Cell(Agg('Waker', None, [])))
def m_context_from_waker(ip, c, a): return Agg('Context', None, [Cell(a[0])])
def m_future_poll(ip, c, a):
    p = a[0]; tgt = p.fields[0].v if isinstance(p, Agg) and p.ty == 'Pin' else p
    while isinstance(tgt, Ref): tgt = tgt.cell.v
    if isinstance(tgt, Agg) and tgt.ty == 'Box': tgt = tgt.fields[0].v
    if isinstance(tgt, Coroutine):
        body = ip.coroutine_body(tgt)
        return ip.call_fn(body, [Agg('Pin', None, [Cell(Ref(Cell(tgt)) if not isinstance(p.fields[0].v, Ref) else p.fields[0].v)]), a[1]])
    if isinstance(tgt, Agg):
        r = ip.resolve('<%s as Future>::poll' % tgt.ty)
        if r is not None: return ip.call_fn(r, [p, a[1]])
    raise Unsupported("poll of %r" % (tgt,))
def _io_target(v):
    r = v
    while isinstance(r, Ref) and isinstance(r.cell.v, Ref): r = r.cell.v
    return r
def m_write_all(ip, c, a):
    w = _io_target(a[0]); t = unref(w)
    f = ip.resolve('<%s as Write>::write' % t.ty)
    if f is None: raise Unsupported("write_all on " + t.ty)
    r = ip.call_fn(f, [w, a[1]])
    return res_ok(UNIT) if r.variant == 'Ok' else r
def m_read_exact(ip, c, a):
    rd = _io_target(a[0]); t = unref(rd)
    f = ip.resolve('<%s as Read>::read' % t.ty)
    if f is None: raise Unsupported("read_exact on " + t.ty)
    buf = a[1]; want = len(items_of(buf))
    r = ip.call_fn(f, [rd, buf])
    if r.variant != 'Ok': return r
    n = r.fields[0].v
    if isinstance(n, int) and n < want: return res_err(Agg('IoError', None, []))
    return res_ok(UNIT)
def m_into_future(ip, c, a): return a[0]
def m_unsize_ident(ip, c, a): return a[0]
# ---- more String / str surface (concrete strings; symbolic receivers are unsupported = inconclusive, never a pass)
def _conc(ip, v, what):
    s = val_of_strlike(v)
    if is_sym(s): raise Unsupported(what + " of symbolic string")
    return s
def _byte_to_char_index(s, n, what):
    b = s.encode()
    if n > len(b): raise Panic("%s: byte index %d is out of bounds" % (what, n))
    try: return len(b[:n].decode())
    except UnicodeDecodeError: raise Panic("assertion failed: self.is_char_boundary(new_len)")
def m_string_truncate(ip, c, a):
    cell = a[0].cell; s = _conc(ip, cell.v, 'truncate'); n = a[1]
    if is_sym(n): raise Unsupported("symbolic truncate length")
    if n <= len(s.encode()): cell.v = s[:_byte_to_char_index(s, n, 'truncate')]
    return UNIT
def m_is_char_boundary(ip, c, a):
    s = _conc(ip, a[0], 'is_char_boundary'); n = a[1]; b = s.encode()
    if n == 0 or n == len(b): return True
    if n > len(b): return False
    return (b[n] & 0xC0) != 0x80
def m_string_push(ip, c, a):
    cell = a[0].cell; ch = a[1]
    cell.v = sconcat([cell.v, ch if isinstance(ch, str) else T('(str.from_code %s)', 'String', ch.s)]); return UNIT
def m_string_pop(ip, c, a):
    cell = a[0].cell; s = _conc(ip, cell.v, 'pop')
    if s == '': return OPT_NONE()
    cell.v = s[:-1]; return opt_some(s[-1])
def m_string_clear(ip, c, a): a[0].cell.v = ''; return UNIT
def m_string_insert_str(ip, c, a):
    cell = a[0].cell; s = _conc(ip, cell.v, 'insert_str'); i = _byte_to_char_index(s, a[1], 'insert_str'); cell.v = s[:i] + _conc(ip, a[2], 'insert_str') + s[i:]; return UNIT
def m_str_find(ip, c, a):
    s = _conc(ip, a[0], 'find'); p = a[1] if isinstance(a[1], str) else _conc(ip, a[1], 'find')
    i = s.find(p)
    return OPT_NONE() if i < 0 else opt_some(len(s[:i].encode()))
def m_str_rfind(ip, c, a):
    s = _conc(ip, a[0], 'rfind'); p = a[1] if isinstance(a[1], str) else _conc(ip, a[1], 'rfind')
    i = s.rfind(p)
    return OPT_NONE() if i < 0 else opt_some(len(s[:i].encode()))
def m_str_split_once(ip, c, a):
    r = split_once(ip, val_of_strlike(a[0]), val_of_strlike(a[1]))
    return OPT_NONE() if r is None else opt_some(Agg('tuple', None, [Cell(r[0]), Cell(r[1])]))
def m_strip_prefix(ip, c, a):
    s = val_of_strlike(a[0]); p = val_of_strlike(a[1])
    if not is_sym(s) and not is_sym(p): return opt_some(s[len(p):]) if s.startswith(p) else OPT_NONE()
    if ip.branch(m_starts_with(ip, c, a)):
        r = ip.fresh('String', 'sp', record=False); ip.solver.add("(= %s (str.++ %s %s))" % (smt_str(s), smt_str(p), r.s)); inherit_facts(ip, s, r); return opt_some(r)
    return OPT_NONE()
def m_strip_suffix(ip, c, a):
    s = val_of_strlike(a[0]); p = val_of_strlike(a[1])
    if not is_sym(s) and not is_sym(p): return opt_some(s[:len(s) - len(p)]) if s.endswith(p) else OPT_NONE()
    if ip.branch(m_ends_with(ip, c, a)):
        r = ip.fresh('String', 'ss', record=False); ip.solver.add("(= %s (str.++ %s %s))" % (smt_str(s), r.s, smt_str(p))); inherit_facts(ip, s, r); return opt_some(r)
    return OPT_NONE()
def m_trim_start(ip, c, a):
    s = val_of_strlike(a[0])
    if not is_sym(s): return s.lstrip()
    return _strip_prefix_char(ip, s, ' ')
def m_trim_end(ip, c, a):
    s = val_of_strlike(a[0])
    if not is_sym(s): return s.rstrip()
    return _strip_suffix_char(ip, s, ' ')
def m_trim2(ip, c, a):
    s = val_of_strlike(a[0])
    if not is_sym(s): return s.strip()
    # symbolic printable text: only spaces can be trimmed (tabs / newlines are excluded by the 'printable' fact)
    for q in parts_of(s):
        if not isinstance(q, str) and 'printable' not in ip.sfacts.get(q.s, ()): raise Unsupported("trim of unconstrained symbolic string")
    return _strip_prefix_char(ip, _strip_suffix_char(ip, s, ' '), ' ')
def m_to_case(upper):
    def f(ip, c, a):
        s = _conc(ip, a[0], 'case conversion'); return s.upper() if upper else s.lower()
    return f
def m_split_whitespace(ip, c, a):
    s = _conc(ip, a[0], 'split_whitespace'); return Agg('VecIntoIter', None, [Cell([Cell(x) for x in s.split()]), Cell(0)])
def m_lines(ip, c, a):
    s = _conc(ip, a[0], 'lines'); return Agg('VecIntoIter', None, [Cell([Cell(x) for x in s.splitlines()]), Cell(0)])
def m_char_indices(ip, c, a):
    s = _conc(ip, a[0], 'char_indices'); out = []; off = 0
    for ch in s: out.append(Cell(Agg('tuple', None, [Cell(off), Cell(ch)]))); off += len(ch.encode())
    return Agg('VecIntoIter', None, [Cell(out), Cell(0)])
def m_str_get_range(ip, c, a):
    try: return opt_some(m_str_index_range(ip, c, a))
    except Panic: return OPT_NONE()
def m_char_len_utf8(ip, c, a): return len(a[0].encode()) if isinstance(a[0], str) else 1
def m_char_pred(fn):
    def f(ip, c, a):
        ch = unref(a[0])
        if not isinstance(ch, str): raise Unsupported("char predicate on symbolic char")
        return fn(ch)
    return f
def install13(ip):
    P = lambda rx, f: (re.compile(rx), f)
    ip.pattern_models = [
        P(r'^Box::pin$|^Box::<.*>::pin$', m_box_pin), P(r'^Pin::<.*>::new_unchecked$|^Pin::new_unchecked$|^Pin::<.*>::new$|^Pin::new$', m_pin_new_unchecked),
        P(r'^Pin::<.*>::as_mut$|^Pin::as_mut$', m_pin_as_mut), P(r'^Pin::<.*>::get_mut$|^Pin::get_mut$|^Pin::<.*>::get_unchecked_mut$|^Pin::get_unchecked_mut$', m_pin_get_mut),
        P(r'^Waker::noop$', m_waker_noop), P(r'^Context::<.*>::from_waker$|^Context::from_waker$', m_context_from_waker),
        P(r' as Future>::poll$', m_future_poll),
        P(r'^String::truncate$', m_string_truncate), P(r'impl str>::is_char_boundary$', m_is_char_boundary), P(r'^String::push$', m_string_push), P(r'^String::pop$', m_string_pop),
        P(r'^String::clear$', m_string_clear), P(r'^String::insert_str$', m_string_insert_str), P(r'impl str>::find$', m_str_find), P(r'impl str>::rfind$', m_str_rfind),
        P(r'impl str>::split_once$', m_str_split_once), P(r'impl str>::strip_prefix$', m_strip_prefix), P(r'impl str>::strip_suffix$', m_strip_suffix),
        P(r'impl str>::trim_start$', m_trim_start), P(r'impl str>::trim_end$', m_trim_end), P(r'impl str>::trim$', m_trim2),
        P(r'impl str>::to_uppercase$|impl str>::to_ascii_uppercase$', m_to_case(True)), P(r'impl str>::to_lowercase$|impl str>::to_ascii_lowercase$', m_to_case(False)),
        P(r'impl str>::split_whitespace$', m_split_whitespace), P(r'impl str>::lines$', m_lines), P(r'impl str>::char_indices$', m_char_indices),
        P(r'impl str>::get$', m_str_get_range), P(r'impl char>::len_utf8$', m_char_len_utf8),
        P(r'impl char>::is_ascii_digit$|impl char>::is_numeric$', m_char_pred(lambda ch: ch.isdigit())), P(r'impl char>::is_whitespace$|impl char>::is_ascii_whitespace$', m_char_pred(lambda ch: ch.isspace())),
        P(r'impl char>::is_alphanumeric$|impl char>::is_ascii_alphanumeric$', m_char_pred(lambda ch: ch.isalnum())), P(r'impl char>::is_alphabetic$|impl char>::is_ascii_alphabetic$', m_char_pred(lambda ch: ch.isalpha())), P(r'as (std::io::)?Write>::write_all$', m_write_all), P(r'as (std::io::)?Read>::read_exact$', m_read_exact), P(r' as IntoFuture>::into_future$', m_into_future), P(r'^panic_fmt$|panicking::panic_fmt$', m_panic_fmt), P(r'^<(String|str) as Hash>::hash$', m_string_hash), P(r'impl str>::bytes$', m_str_bytes), P(r'^Vec::swap_remove$', m_vec_swap_remove), P(r' as IntoKey>::into_key$', lambda ip, c, a: val_of_strlike(a[0])),
    ] + ip.pattern_models
    ip.pattern_models = ip.pattern_models + [(re.compile(r' as Clone>::clone$'), m_clone_generic)]

def install_all(ip):
    install(ip); install2(ip); install3(ip); install4(ip); install5(ip); install6(ip); install7(ip); install8(ip); install9(ip); install10(ip); install11(ip); install12(ip); install13(ip)
