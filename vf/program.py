"""Program = parsed MIR of nsym + shim crates, plus type layouts read from the slice sources."""
import os, re
from .mirparse import parse_mir, split_top, match_close

SHIMS = ("vstd", "futures", "atomic_float", "bincode", "bytes", "tokio", "aws_sdk_s3", "aws_config", "tiny_http")

class Program:
    def __init__(self, built, verif_dir):
        self.crate_dir = built["crate"]
        self.fns = {}
        self.texts = built["mir"]
        main = parse_mir(built["mir"]["nsym"])
        for k, f in main.items():
            f.crate = "nsym"; self.fns[k] = f
        for crate in SHIMS:
            if crate not in built["mir"]: continue
            v = parse_mir(built["mir"][crate])
            for k, f in v.items():
                f.name = crate + "::" + k; f.crate = crate; self.fns[f.name] = f
        self.src_roots = {"nsym": self.crate_dir}
        for c in SHIMS: self.src_roots[c] = os.path.join(verif_dir, "shims", c)
        self.layouts = {"__variants__": set()}
        self.enum_discr = {}    # (enum, variant) -> explicit discriminant
        self.scan_src(os.path.join(self.crate_dir, "src"))
        for c in SHIMS: self.scan_src(os.path.join(verif_dir, "shims", c, "src"))
        for ty, vs in (("SeekFrom", ["Start", "End", "Current"]), ("ControlFlow", ["Continue", "Break"]), ("Ordering", ["Less", "Equal", "Greater"]),
                       ("Poll", ["Ready", "Pending"]), ("ErrorKind", ["NotFound"]), ("VarError", ["NotPresent", "NotUnicode"])):
            self.layouts[("__enum__", ty)] = vs
            for v_ in vs: self.layouts["__variants__"].add((ty, v_))
        self.enum_discr[("Ordering", "Less")] = -1; self.enum_discr[("Ordering", "Equal")] = 0; self.enum_discr[("Ordering", "Greater")] = 1
        # simple named consts:  const NAME: T = const V;
        self.simple_consts = {}
        for crate, text in self.texts.items():
            for m in re.finditer(r"^const (\S+): [^=]+ = const (.+);$", text, re.M):
                self.simple_consts[m.group(1)] = m.group(2); self.simple_consts[m.group(1).split("::")[-1]] = m.group(2)
        # lazy_static owners: "<NAME as Deref>::deref::__static_ref_initialize" follows "deref(_1: &NAME)" in dump order
        self.lazy_init = {}
        cur = None
        for n, f in self.fns.items():
            base = n.split("#")[0]
            if base.endswith("::deref") and f.params and re.match(r"_1: &[A-Z_0-9]+$", f.params[0].strip()):
                cur = f.params[0].strip()[5:]
            elif base.endswith("::deref::__static_ref_initialize") and cur:
                self.lazy_init[cur] = n
        # alloc -> static name, per crate
        self.alloc_static = {}
        for crate, txt in self.texts.items():
            for m in re.finditer(r"^(alloc\d+) \(static: ([^,]+),", txt, re.M):
                nm = m.group(2).strip(); full = (crate + "::" + nm) if crate != "nsym" else nm
                if full in self.fns: self.alloc_static[(crate, m.group(1))] = full
                else:
                    cands = [n for n in self.fns if (n == full or n.endswith("::" + nm)) and self.fns[n].crate == crate]
                    if not cands:
                        last = nm.split("::")[-1]
                        cands = [n for n in self.fns if n.split("::")[-1] == last and getattr(self.fns[n], "is_const", False)]
                        if len(cands) > 1: cands = []
                    if len(cands) >= 1: self.alloc_static[(crate, m.group(1))] = cands[0]
        self.closure_fns = {}
        for n, f in self.fns.items():
            if "{closure#" in n and f.params:
                m = re.search(r"\{closure@[^}]*\}", f.params[0])
                if m: self.closure_fns[(f.crate, m.group(0))] = n
        self.coroutine_fns = {}
        for n, f in self.fns.items():
            if "{closure#" in n and f.params:
                m = re.search(r"\{async (fn body of|block@|closure body of) ?[^}]*\}", f.params[0])
                if m: self.coroutine_fns[(f.crate, m.group(0))] = n

    def scan_src(self, root):
        layouts = self.layouts
        for dp, dn, fnames in os.walk(root):
            for fn_ in fnames:
                if not fn_.endswith(".rs"): continue
                src = open(os.path.join(dp, fn_)).read()
                src = re.sub(r"//[^\n]*", "", src)
                for m in re.finditer(r"(?:pub )?struct (\w+)(?:<[^>{]*>)?\s*(?:where[^{]*)?\{([^}]*)\}", src):
                    fields = [x.split(":")[0].strip().replace("pub ", "") for x in split_top(m.group(2)) if ":" in x]
                    layouts[(m.group(1), None)] = fields
                for m in re.finditer(r"(?:pub )?enum (\w+)(?:<[^{]*>)?\s*(?:where[^{]*)?\{", src):
                    e = match_close(src, m.end() - 1); body = src[m.end():e]
                    vs = []; counter = -1
                    for part in split_top(body):
                        part = re.sub(r"#\[[^\]]*\]", "", part).strip()
                        if not part: continue
                        mm = re.match(r"(\w+)\s*(\{(.*)\}|\((.*)\))?\s*(?:=\s*(-?\d+))?", part, re.S)
                        vs.append(mm.group(1)); layouts["__variants__"].add((m.group(1), mm.group(1)))
                        if mm.group(3) is not None:
                            layouts[(m.group(1), mm.group(1))] = [x.split(":")[0].strip() for x in split_top(mm.group(3)) if ":" in x]
                        counter = int(mm.group(5)) if mm.group(5) is not None else counter + 1
                        self.enum_discr[(m.group(1), mm.group(1))] = counter
                    layouts[("__enum__", m.group(1))] = vs
