"""per-property configuration: harnesses, tier parameters, vacuity witnesses, bounds (text goes to the evidence file)"""
PROPS = {}
PROPS["C02"] = {
    "level": "model_checking",
    "harnesses": [
        {"name": "c02_seq", "covers": ["setsafe.refused", "setsafe.accepted"]},
        {"name": "c02_race2", "covers": ["race.one-winner"]},
    ],
    "bounds": {"quick": "1 key; pre-state absent or resident (New/Ok/Updated) with any version in [1, i32::MAX); one command of {set-safe v (any i32 >= -1), set, increment n}; value strings <= 4 printable ASCII chars",
               "thorough": "same"},
    "outside": "versions < -1 presented by clients; tombstoned pre-state (C01); more than one command",
    "assumptions": ["environment shims (HashMap as association vector, locks as hold counters, logical clock)"],
}
