"""per-property configuration: harnesses, tier parameters, vacuity witnesses, bounds (text goes to the evidence file)"""
PROPS = {}
PROPS["C02"] = {
    "level": "model_checking",
    "kani": [{"name": "k_next_version_rule"}],
    "harnesses": [
        {"name": "c02_seq", "covers": ["setsafe.refused", "setsafe.accepted"]},
        {"name": "c02_race2", "covers": ["race.one-winner"]},
        {"name": "c02_snapshot_race", "covers": ["snapshot-race.done"]},
    ],
    "bounds": {"quick": "1 key; pre-state absent or resident (New/Ok/Updated) with any version in [1, i32::MAX); one command of {set-safe v (any i32 >= -1), set, increment n}; value strings <= 4 printable ASCII chars",
               "thorough": "same"},
    "outside": "versions < -1 presented by clients; tombstoned pre-state (C01); more than one command",
    "assumptions": ["environment shims (HashMap as association vector, locks as hold counters, logical clock)"],
}

PROPS["C12"] = {
    "level": "model_checking",
    "kani": [{"name": "k_disk_tag_round_trips"}],
    "harnesses": [
        {"name": "c12_search_strict_n%d" % n, "fn": "c12_search", "params": {"quick": {"n": n, "strict": 1}}, "covers": (["search.some-record-at-or-after"] if n else [])} for n in range(0, 7)
    ] + [
        {"name": "c12_search_ties_n%d" % n, "fn": "c12_search", "params": {"quick": {"n": n, "strict": 0}}} for n in (2, 3, 5)
    ] + [
        {"name": "c12_search_strict_n%d" % n, "fn": "c12_search", "params": {"quick": {"n": n, "strict": 1}}, "thorough_only": True} for n in range(7, 11)
    ] + [
        {"name": "c12_label", "params": {"quick": {"n": 3}, "thorough": {"n": 4}}},
        {"name": "c12_rotate", "params": {"quick": {"n": 7}, "thorough": {"n": 10}}},
        {"name": "c12_rotate_kinds", "fn": "c12_rotate", "params": {"quick": {"n": 4, "kinds": 1}, "thorough": {"n": 5, "kinds": 1}}},
    ],
    "bounds": {"quick": "single log file of n = 0..6 records with distinct (db,key), timestamps any u64 strictly increasing (n<=6) / non-decreasing (n in 2,3,5), since any u64; labelling: 3 records over 2 dbs x 2 keys x 4 kinds; rotation: 7 records with NUN_MAX_OP_LOG_SIZE=750 (3 records per file)",
               "thorough": "n up to 10; labelling 4 records; rotation 10 records"},
    "outside": "logs longer than the bound; more than 10 rotated files (remove_old_db_files); clock going backwards",
    "assumptions": ["in-memory file system shim with exact BufWriter semantics", "creation time of a file = index of the FS operation that created it"],
}
PROPS["C15"] = {
    "level": "model_checking",
    "harnesses": [
        {"name": "c15_events_2x2", "fn": "c15_events", "params": {"quick": {"events": 4, "ops": 2, "nodes": 2}, "thorough": {"events": 5, "ops": 2, "nodes": 2}}, "covers": ["ack.counted", "ack.duplicate-or-foreign"]},
        {"name": "c15_events_3x3", "fn": "c15_events", "params": {"quick": {"events": 3, "ops": 3, "nodes": 3}, "thorough": {"events": 4, "ops": 3, "nodes": 3}}},
        {"name": "c15_events_1x2", "fn": "c15_events", "params": {"quick": {"events": 5, "ops": 1, "nodes": 2}, "thorough": {"events": 6, "ops": 1, "nodes": 2}}},
        {"name": "c15_race", "covers": ["race.ack-before-second-registration"]},
    ],
    "bounds": {"quick": "event sequences of length 4 over 2 ops x 2 nodes, length 3 over 3 x 3, length 5 over 1 op x 2 nodes; each event register(op,node) or `ack op node` through process_request; each (op,node) registered at most once",
               "thorough": "lengths 5 / 4 / 6"},
    "outside": "re-registration of the same (op, node); membership changes; concurrent register/ack (both sides serialise on the pending_opps write lock)",
    "assumptions": ["environment shims"],
}

PROPS["C01"] = {
    "level": "model_checking",
    "harnesses": [
        {"name": "c01_step", "params": {"quick": {"admin": 0}}},
        {"name": "c01_step_admin", "fn": "c01_step", "params": {"quick": {"admin": 1}}},
    ],
    "bounds": {"quick": "one command of {get, get-safe, set v, set-safe ver v, remove, increment n, keys pattern} through process_request against key k whose pre-state is any of {absent, New, Ok, Updated, Deleted(tombstone)} with any value (<= 4 printable chars), version in [1, 1e6), any disk offsets; one live neighbour key; non-admin and admin session",
               "thorough": "same"},
    "outside": "sequences longer than the bound (covered inductively through the representation invariant checked on the post-state); values containing ';' or newline (command terminators on the wire); non-ASCII values",
    "assumptions": ["representation invariant of a stored key assumed on the pre-state and re-checked on the post-state: New => disk offsets 0, Deleted => value '<Empty>'", "environment shims"],
}

PROPS["C17"] = {
    "level": "model_checking",
    "harnesses": [
        {"name": "c17_events", "params": {"quick": {"events": 4, "sessions": 2}, "thorough": {"events": 5, "sessions": 2}}},
    ],
    "bounds": {"quick": "all sequences of 4 events over 2 sessions and 2 databases; event in {use-db d1, use-db d2, use-db with a wrong token, a refused command, disconnect = unwatch-all + Client::left (the sequence of all three transports)}; a disconnected slot reconnects as a fresh session",
               "thorough": "5 events, 2 sessions"},
    "outside": "user-token sessions (same handler branch shape), interleaved sessions (the counter is an AtomicUsize behind a write lock), watcher notifications of $connections",
    "assumptions": ["environment shims"],
}
PROPS["C19"] = {
    "level": "model_checking",
    "kani": [{"name": "k_next_version_rule", "thorough_only": True}],
    "harnesses": [
        {"name": "c19_seq", "params": {"quick": {"writes": 3}, "thorough": {"writes": 5}}, "covers": ["newer.stale-write-seen", "newer.incoming-write-lost"]},
        {"name": "c19_race2", "covers": ["newer.race-a-last", "newer.race-b-last"]},
        {"name": "c19_replicas_2nodes", "fn": "c19_replicas", "params": {"quick": {"secondaries": 1, "writes": 2, "orders": 1}, "thorough": {"secondaries": 1, "writes": 3, "orders": 1}}, "covers": ["replicas.stale-version"]},
        {"name": "c19_replicas_3nodes", "fn": "c19_replicas", "params": {"quick": {"secondaries": 2, "writes": 2, "orders": 0}, "thorough": {"secondaries": 2, "writes": 1, "orders": 1}}, "covers": ["replicas.stale-version"], "budget_s": {"quick": 900, "thorough": 7200}},
    ],
    "bounds": {"quick": "3 consecutive writes (plain or versioned with any version in [0,1000)) to one key of a newer-strategy database with op ids from a symbolic non-decreasing clock (ties allowed); 2 concurrent set-safe writers (any versions in [-1, cur+1]) under all lock-level interleavings; replicas: 2 consecutive writes (plain or versioned with any version in [0, cur+1]) issued on the primary of a 2-node cluster (all FIFO delivery orders) and of a 3-node cluster (one fair order), each replicated before the next, every replica compared with the primary",
               "thorough": "5 writes; 3 replicated writes on 2 nodes; one replicated write on 3 nodes under all delivery orders"},
    "outside": "writes issued on a secondary (C04 records the double application there); more than 2 concurrent writers; concurrent clients in a cluster",
    "assumptions": ["environment shims", "partial-order reduction: session locks, the database table and the metrics averages are not yield points (checked for contention)"],
}
PROPS["C20"] = {
    "level": "model_checking",
    "harnesses": [
        {"name": "c20_body", "params": {"quick": {"statements": 3}, "thorough": {"statements": 4}}},
        {"name": "c20_server", "params": {"quick": {"first": 2, "second": 2}, "thorough": {"first": 3, "second": 2}}},
    ],
    "bounds": {"quick": "all HTTP bodies of 3 statements over 14 statement kinds (auth ok/bad, use-db ok/bad, get, set, stale set-safe, remove, increment ok/non-numeric, keys, create-db refused/allowed/duplicate, secure-key get, blank statement) through the real process_commands; server: the real worker loop of start_http_client over a tiny_http shim (request queue), two consecutive requests (2 + 2 statements from 9 non-mutating and 7 general kinds) on one node against the second request alone on an identically prepared node: same reply, subscriptions and connection count released",
               "thorough": "4 statements"},
    "outside": "WebSocket on_message splitting (ws crate event loop not sliced); concurrent HTTP workers (the first worker serves every queued request); user-token sessions",
    "assumptions": ["environment shims"],
}

PROPS["C10"] = {
    "level": "model_checking",
    "harnesses": [
        {"name": "c10_parse", "params": {"quick": {"len": 24}, "thorough": {"len": 48}}, "covers": ["parse.ok", "parse.err"], "budget_s": {"quick": 900, "thorough": 3600}},
        {"name": "c10_parse_permissions", "params": {"quick": {"listlen": 4, "charlen": 2, "splitlimit": 2}}, "covers": ["perm.ok"], "budget_s": {"quick": 900, "thorough": 3600}},
        {"name": "c10_samples", "covers": ["sample.answered"]},
        {"name": "c10_handlers", "params": {"quick": {"arglen": 3, "free_tail": 0}}, "covers": ["handler.error-reply", "handler.ok-reply"], "budget_s": {"quick": 900, "thorough": 7200}},
    ],
    "bounds": {"quick": "parser: one fully symbolic line of <= 24 printable ASCII characters (at most 3 trailing ';', at most 3 separators located per split of symbolic text; lines starting with 'set-permissions ' go to their own harness: symbolic permission list of <= 4 chars, kinds walked up to 2 chars, <= 2 separators per split); handlers: every word of the parser table x 0..3 symbolic space-free tokens of <= 3 characters x session in {unauthenticated, admin with database, database token}, one command through process_request from a pre-state holding one resolved and one unresolved conflict record, then the node's real replication loop (service thread) processes whatever the command queued and must still be running, followed by a probe set/get from a second client; plus 14 concrete hostile lines (5000-byte token, 2- / 3- / 4-byte UTF-8 characters straddling the 250 / 1024 / 4096 byte marks, control characters, 300 separators, 400-digit numbers) from two session kinds",
               "thorough": "parser line <= 48 chars; handlers as in the quick tier"},
    "outside": "non-UTF-8 bytes (rejected by the transports before the parser) and non-ASCII text in symbolic positions; the ws / tiny_http crates; sequences of more than one hostile command; the native stack is modelled as a limit of 256 nested request-handler frames (c10_samples carries a 15 KB line of nested rp wrappers); arithmetic overflow panics that exist only in debug builds are reported under their own check ids",
    "assumptions": ["environment shims", "single-thread self-deadlock = a lock requested while the same thread holds it incompatibly is reported as a panic"],
}

PROPS["C09"] = {
    "level": "model_checking",
    "harnesses": [
        {"name": "c09_admin_words", "covers": ["admin-word.refused"]},
        {"name": "c09_no_credentials"},
        {"name": "c09_user_permissions", "covers": ["permission.denied-case", "permission.granted-case"], "budget_s": {"quick": 900, "thorough": 3600}},
        {"name": "c09_failed_rebind"},
        {"name": "c09_foreign_database", "covers": ["foreign-db.refused-seen"]},
    ],
    "bounds": {"quick": "one command; administrative / cluster words (21 words, plain and inside the rp wrapper) x 0..3 symbolic tokens (<= 3 chars) x {fresh session, database-token session}; data words (13) before any valid credential (nothing, wrong password, wrong token, unknown database); user-token session with permission list in {none, r, w, i, x, rwix} x pattern in {a*, *z, m} x key = symbolic token (<= 3 chars) x 8 operations (get, get-safe, watch, set, set-safe, increment, remove, resolve); failed use-db (wrong user token / wrong database token / unknown database, symbolic wrong token) keeps binding and rights",
               "thorough": "same with tokens <= 5 chars"},
    "outside": "permission lists with several '|' entries or several patterns per entry (grammar covered by c10_parse_permissions); permission changes made mid-session; arbiter registration by user-token sessions",
    "assumptions": ["environment shims", "state digest = every key/value/version/state of every database, watcher counts, connection counters, cluster members, role, snapshot queue, pending operations, replication and supervisor queues"],
}

PROPS["C08"] = {
    "level": "model_checking",
    "harnesses": [
        {"name": "c08_noninterference", "params": {"quick": {"arglen": 8, "rp": 0}}, "budget_s": {"quick": 900, "thorough": 3600}},
        {"name": "c08_noninterference_rp", "fn": "c08_noninterference", "params": {"quick": {"arglen": 8, "rp": 1}}, "budget_s": {"quick": 900, "thorough": 3600}, "thorough_only": True},
        {"name": "c08_token_not_removable"},
        {"name": "c08_via_secondary", "covers": ["secure-cluster.on-secondary"]},
        {"name": "c08_control_characters"},
    ],
    "bounds": {"quick": "self-composition: two servers identical except for the contents of $$ keys ($$s = '7' vs 'x y', another user's token and permission list); one command = any word of the parser table except the login words x 0..3 symbolic space-free tokens of <= 8 chars (long enough to spell $$token / $$user_o) from a database-token session and from a user-token session holding 'rwix *'; reply, every line on the client channel, the $$ keys of both servers, and notifications after an administrator rewrites the secret are compared",
               "thorough": "same, also with every command wrapped in 'rp <id>'"},
    "outside": "sequences of several commands; symbolic secrets (a concrete pair of different shape is used); arguments longer than 8 characters",
    "assumptions": ["environment shims"],
}

PROPS["C06"] = {
    "level": "model_checking",
    "kani": [{"name": "k_disk_tag_round_trips"}],
    "harnesses": [
        {"name": "c06_history", "params": {"quick": {"ops": 4, "prefix": 0}, "thorough": {"ops": 5, "prefix": 0}}, "covers": ["snapshot.done"], "budget_s": {"quick": 900, "thorough": 7200}},
        {"name": "c06_history_persisted", "fn": "c06_history", "params": {"quick": {"ops": 4, "prefix": 1}}, "covers": ["snapshot.done"], "budget_s": {"quick": 900, "thorough": 7200}},
        {"name": "c06_counter_history_persisted", "fn": "c06_history", "params": {"quick": {"ops": 4, "prefix": 1, "counter": 1}, "thorough": {"ops": 5, "prefix": 1, "counter": 1}}, "covers": ["snapshot.done"], "budget_s": {"quick": 900, "thorough": 7200}},
    ],
    "bounds": {"quick": "all histories of 4 operations over {set k0 v, set key1 v, remove k0, remove key1, increment n 3, snapshot false, snapshot true} from an empty database, and the same after a fixed first phase (both keys and the counter written and persisted by an incremental snapshot); key names of 2 and 4 bytes, values of 1-3 bytes with symbolic printable content; the real snapshot_all_pendding_dbs / storage_data_disk write and the real load_all_dbs / create_db_from_file_name read over the in-memory file system; then restart (the start_db sequence of main.rs) and comparison with the reference map frozen at the last completed snapshot; plus all histories of 4 operations over the counter key alone {increment n, remove n, snapshot false, snapshot true} from the persisted first phase",
               "thorough": "5 operations from the empty database; 5 for the counter histories"},
    "outside": "multi-byte UTF-8 content (lengths are concrete byte counts, content is symbolic ASCII); more than one database per history; HashMap iteration orders other than insertion order; fsync / page-cache reordering",
    "assumptions": ["in-memory file system shim with exact BufWriter capacity / flush / drop semantics", "environment shims"],
}

PROPS["C11"] = {
    "level": "model_checking",
    "harnesses": [
        {"name": "c11_crash_incremental", "fn": "c11_crash", "params": {"quick": {"reclaim": 0}}, "covers": ["crash.before-end", "crash.none"]},
        {"name": "c11_crash_reclaim", "fn": "c11_crash", "params": {"quick": {"reclaim": 1}}, "covers": ["crash.before-end", "crash.none"]},
    ],
    "bounds": {"quick": "snapshot 1 (two keys, symbolic content) completes; one of 6 changes {update, add, remove, update+add, update with a 300-byte value, add+remove}; the snapshot visits the keys in a solver-chosen rotation of the map order; a key being added must load as absent or complete; snapshot 2 (incremental / reclaiming) is cut at a solver-chosen file-system operation (every mutating FS operation with index >= CRASH_AT is dropped, including unflushed buffers); restart with the start_db sequence; every previously persisted key must load with its old or its new (value, version), neighbours intact, no panic",
               "thorough": "same"},
    "outside": "torn writes inside one write call; reordering of writes by the page cache (writes reach the disk in program order); crashes during the op-log / key-map writes (C16)",
    "assumptions": ["in-memory file system with a crash switch; BufWriter contents are lost at the crash", "environment shims"],
}

PROPS["C04"] = {
    "level": "model_checking",
    "harnesses": [
        {"name": "c04_one_op_2nodes", "fn": "c04_one_op", "params": {"quick": {"secondaries": 1, "orders": 1, "newer": 0}}},
        {"name": "c04_one_op_2nodes_newer", "fn": "c04_one_op", "params": {"quick": {"secondaries": 1, "orders": 1, "newer": 1}}},
        {"name": "c04_one_op_3nodes", "fn": "c04_one_op", "params": {"quick": {"secondaries": 2, "orders": 0, "newer": 0}}, "budget_s": {"quick": 900, "thorough": 7200}},
        {"name": "c04_snapshot_history", "params": {"quick": {"secondaries": 1, "steps": 4}, "thorough": {"secondaries": 1, "steps": 5}}, "covers": ["snapshot-history.snapshots-ran"]},
    ],
    "bounds": {"quick": "cluster of 1 primary + 1 secondary (every FIFO-respecting delivery order of link messages, replies and replication-loop turns as solver choices) and 1 primary + 2 secondaries (one fair order); common replicated history (database d, key k); then ONE client operation at a solver-chosen node from {set k v, set new key, set-safe at the current version, set-safe with any version in [-1, cur+1], remove, increment, create-user, set-permissions, create-db} with a symbolic value; databases with strategy none and newer; nodes compared key by key (value, version, live/removed) at quiescence, pending operations must be 0; snapshot histories: all sequences of 4 steps {set k, remove k, increment k, snapshot false, snapshot true} issued on the primary of a 2-node cluster, after every snapshot step each node runs its real snapshot over its OWN in-memory disk, after every step get-safe k agrees on all nodes",
               "thorough": "snapshot histories of 5 steps"},
    "outside": "sequences of several client operations other than the snapshot histories; concurrent clients; membership changes during the operation; the link pump (30 lines) mirrors handle_client / start_replication instead of running them over a socket model",
    "assumptions": ["environment shims", "links are reliable FIFO channels"],
}

PROPS["C14"] = {
    "level": "model_checking",
    "harnesses": [
        {"name": "c14_burst_2nodes", "fn": "c14_burst", "params": {"quick": {"secondaries": 1, "orders": 0}}},
        {"name": "c14_burst_3nodes", "fn": "c14_burst", "params": {"quick": {"secondaries": 2, "orders": 0, "budget": 120}}},
        {"name": "c14_burst_2nodes_newer", "fn": "c14_burst", "params": {"quick": {"secondaries": 1, "orders": 0, "dbstrategy": 1}}},
        {"name": "c14_burst_3nodes_newer", "fn": "c14_burst", "params": {"quick": {"secondaries": 2, "orders": 0, "budget": 120, "dbstrategy": 1}}},
        {"name": "c14_burst_2nodes_none", "fn": "c14_burst", "params": {"quick": {"secondaries": 1, "orders": 0, "dbstrategy": 2}}},
        {"name": "c14_burst_3nodes_after_handover", "fn": "c14_burst", "params": {"quick": {"secondaries": 2, "orders": 0, "budget": 120, "handover": 1}}, "covers": ["handover.done"]},
        {"name": "c14_burst_2nodes_after_handover", "fn": "c14_burst", "params": {"quick": {"secondaries": 1, "orders": 0, "handover": 1}}, "covers": ["handover.done"]},
    ],
    "bounds": {"quick": "clusters of 2 and 3 nodes (database d with key k, common replicated history; strategy arbiter, and newer / none variants), an arbiter session at a solver-chosen node or nowhere, then ONE of 14 client commands at a solver-chosen node; the same after a primary hand-over from n1 to n2 with n1 staying as a secondary; messages crossing links counted until quiescence with a step budget of 80 / 120 (far above the bound 1 + 2 per secondary); one fair delivery order",
               "thorough": "same (exploring all delivery orders of the non-quiescing resolve exchange - recorded finding - does not terminate within an hour)"},
    "outside": "commands with symbolic arguments (the argument values do not change who sends what); nodes joining or leaving (the hand-over variant keeps the old primary as a secondary: n1 yields, n2 claims the role with the real election_win, supervisor arms election-win / primary mirrored)",
    "assumptions": ["environment shims", "the link pump mirrors handle_client / start_replication"],
}

PROPS["C13"] = {
    "level": "model_checking",
    "harnesses": [
        {"name": "c13_events", "params": {"quick": {"events": 5}, "thorough": {"events": 6}}, "covers": ["conflict.queued", "resolve.done", "resolve.out-of-order", "write.same-value-over-pending"], "budget_s": {"quick": 900, "thorough": 7200}},
    ],
    "bounds": {"quick": "single node, arbiter-strategy database, one key with history (version 1); all sequences of 5 events from {an arbiter registers, the arbiter disconnects, plain set (with a fresh value, or - while a conflict is pending - with exactly the value the key holds), set-safe with any base version in [0,3], the arbiter resolves the oldest pending conflict echoing the op id and version of its notice, the arbiter resolves the newest pending conflict first (out of queue order)}; after every event: refused-or-queued writes leave the value untouched, a queued conflict is recorded under $conflicts_<key>_<opid> and delivered (or re-delivered to the next arbiter, exactly the unresolved ones, in order), nothing is applied over a pending conflict; at the end the key holds the last resolution and is writable again",
               "thorough": "6 events"},
    "outside": "two keys; clusters (the resolve path of a cluster is covered by C14 / C04: it does not quiesce, recorded there); resolutions that pick the old value",
    "assumptions": ["environment shims", "op ids come from the logical clock (distinct)"],
}

PROPS["C05"] = {
    "level": "model_checking",
    "harnesses": [
        {"name": "c05_rejoin_incremental", "fn": "c05_rejoin", "params": {"quick": {"ops": 2, "full": 0}}, "budget_s": {"quick": 900, "thorough": 7200}},
        {"name": "c05_rejoin_full", "fn": "c05_rejoin", "params": {"quick": {"ops": 2, "full": 1}}, "budget_s": {"quick": 900, "thorough": 7200}},
        {"name": "c05_rejoin_incremental_around_create_db", "fn": "c05_rejoin", "params": {"quick": {"ops": 3, "full": 0, "mid": 1}}, "budget_s": {"quick": 900, "thorough": 7200}},
        {"name": "c05_write_during_full_sync", "fn": "c05_write_during_sync", "params": {"quick": {"full": 1, "preemptions": 3}, "thorough": {"full": 1, "preemptions": 4}}, "covers": ["sync-race.live-copy-sent", "sync-race.catch-up-after-live-copy"]},
        {"name": "c05_write_during_incremental_sync", "fn": "c05_write_during_sync", "params": {"quick": {"full": 0, "preemptions": 2}, "thorough": {"full": 0, "preemptions": 3}}, "covers": ["sync-race.live-copy-sent"]},
        {"name": "c05_join_empty", "fn": "c05_rejoin", "params": {"quick": {"ops": 1, "full": 1, "empty_joiner": 1}, "thorough": {"ops": 1, "full": 1, "empty_joiner": 1}}, "budget_s": {"quick": 900, "thorough": 7200}},
    ],
    "bounds": {"quick": "primary + one secondary with a common replicated history (database d, keys a, b, a user with a permission list); also a node joining with an empty disk (full sync into a fresh node); the secondary leaves; 2 operations on the primary from {set a v, set new key v, remove a, remove new key, create-db e (arbiter), increment b} with symbolic values (<= 3 printable chars, spaces and digits included) while the primary's real replication loop writes the op-log; then the catch-up list of get_pendding_opps_since (incremental: since = Oplog::last_op_time at departure; full: since = 0) is fed line by line through the joiner's process_request; databases and live keys, values byte for byte, versions, token and strategy of new databases are compared",
               "thorough": "same, with up to 4 / 3 preemptions in the sync races"},
    "outside": "more than one write during the synchronisation (c05_write_during_*: one client write racing the real supervisor's replicate-since-to arm, interleavings at lock-acquisition and channel-send granularity with at most 3 (full) / 2 (incremental) preemptive context switches, judged on the link); several rotated op-log files (C12); restart of the primary between departure and return (C16); both nodes share one data directory in the model (the joiner's own op-log is not read)",
    "assumptions": ["environment shims", "the joiner's last operation time equals the primary's newest record at departure"],
}

PROPS["C16"] = {
    "level": "model_checking",
    "harnesses": [
        {"name": "c16_history", "params": {"quick": {"steps": 4, "prefix": 0}, "thorough": {"steps": 5, "prefix": 0}}, "covers": ["restart.log-kept", "restart.log-discarded"], "budget_s": {"quick": 900, "thorough": 7200}},
        {"name": "c16_history_persisted", "fn": "c16_history", "params": {"quick": {"steps": 4, "prefix": 1}}, "covers": ["restart.log-kept", "restart.log-discarded"], "budget_s": {"quick": 900, "thorough": 7200}},
        {"name": "c16_crash", "covers": ["crash.inside-window", "crash.none", "crash.log-kept", "crash.log-discarded"]},
        {"name": "c16_crash_second_boot", "fn": "c16_crash", "params": {"quick": {"second-boot": 1}}, "covers": ["crash.inside-window", "crash.none"]},
    ],
    "bounds": {"quick": "all histories of 4 steps from {create-db da, create-db db, first / repeated write of keys k0 k1 k2, snapshot da, snapshot db, restart (clean = safe_shutdown first, or kill)} on a node booted the way start_db does, with the real replication loop writing the op-log; from an empty data directory and from a persisted first phase (da exists, holds k0, snapshotted); kill at any instant (c16_crash): from a persisted database, the node dies at a solver-chosen file-system operation inside the window {first write of a new key (key-id registration, flag update, op-log append); optional key-map + database snapshot; first write of another new key; optional clean shutdown}, restarts, writes a further new key, is killed and restarts again (also with the window opening on a node that was itself started from disk); at every restart every record of the kept log is decoded through the restarted node's id maps and compared with what it meant to the node that wrote it; key ids and database ids in use are pairwise distinct after every step",
               "thorough": "5 steps from an empty data directory"},
    "outside": "torn writes inside one write call (a write call is applied whole or not at all); kills inside create-db; rotated op-log files",
    "assumptions": ["in-memory file system shim", "environment shims"],
}

PROPS["C03"] = {
    "level": "model_checking",
    "harnesses": [
        {"name": "c03_seq", "params": {"quick": {"events": 4}}, "covers": ["notify.delivered"], "budget_s": {"quick": 900, "thorough": 14400}},
        {"name": "c03_race_disconnect", "fn": "c03_race", "params": {"quick": {"mode": 0}}},
        {"name": "c03_race_writer", "fn": "c03_race", "params": {"quick": {"mode": 1}}},
        {"name": "c03_backlog"},
    ],
    "bounds": {"quick": "sequential: all sequences of 4 events from {S watches k, S unwatches k, S unwatch-all, another client watches k / unwatches k / unwatch-all / disappears with or without its registrations cleaned, writer: set, set-safe with any base version in [-1,4], increment, remove, write of another key}; after every writer step S's inbox is compared with what the step owes it. Concurrent: S registers for k while another client (watching k and j) disconnects, and while a writer writes k, under all lock-level interleavings; afterwards a write must reach S. Backlog: a subscriber with 102 unread notifications (above the queue's buffer of 100), then remove / set / remove: one removed line per remove",
               "thorough": "same"},
    "outside": "three concurrently running actors (more than 200 000 schedules; not exhausted within the budget); two concurrent writers (the stale-final-view part of the property; the atomic set_value of C02 covers its cause); replicated writes",
    "assumptions": ["environment shims", "partial-order reduction: session locks, the database table and the metrics averages are not yield points (checked for contention)"],
}

PROPS["C07"] = {
    "level": "model_checking",
    "harnesses": [
        {"name": "c07_election_2nodes", "fn": "c07_election", "params": {"quick": {"secondaries": 1, "triggers": 1, "deviations": 1, "budget": 600}, "thorough": {"secondaries": 1, "triggers": 1, "deviations": 2, "budget": 600}}, "budget_s": {"quick": 900, "thorough": 7200}},
        {"name": "c07_pause_recheck", "covers": ["pause.demoted-after-acks"]},
        {"name": "c07_takeover_2nodes", "fn": "c07_election", "params": {"quick": {"secondaries": 1, "triggers": 1, "deviations": 2, "budget": 600, "prim": 1}}},
        {"name": "c07_takeover_3nodes", "fn": "c07_election", "params": {"quick": {"secondaries": 2, "triggers": 1, "deviations": 1, "budget": 400, "prim": 1}, "thorough": {"secondaries": 2, "triggers": 1, "deviations": 2, "budget": 400, "prim": 1}}},
        {"name": "c07_election_3nodes", "fn": "c07_election", "params": {"quick": {"secondaries": 2, "triggers": 1, "deviations": 0, "budget": 400}, "thorough": {"secondaries": 2, "triggers": 1, "deviations": 1, "budget": 400}}, "budget_s": {"quick": 900, "thorough": 7200}},
        {"name": "c07_rival_claim_2nodes", "fn": "c07_election", "params": {"quick": {"secondaries": 1, "triggers": 1, "deviations": 2, "budget": 600, "war": 1, "early": 2}, "thorough": {"secondaries": 1, "triggers": 1, "deviations": 3, "budget": 600, "war": 1, "early": 2}}, "covers": ["early-wake-up"]},
        {"name": "c07_rival_claim_3nodes", "fn": "c07_election", "params": {"quick": {"secondaries": 2, "triggers": 1, "deviations": 1, "budget": 400, "war": 1, "early": 1}, "thorough": {"secondaries": 2, "triggers": 1, "deviations": 2, "budget": 400, "war": 1, "early": 2}}, "covers": ["early-wake-up"]},
        {"name": "c07_election_2nodes_early_polls", "fn": "c07_election", "params": {"quick": {"secondaries": 1, "triggers": 1, "deviations": 1, "budget": 600, "early": 1}, "thorough": {"secondaries": 1, "triggers": 1, "deviations": 2, "budget": 600, "early": 1}}, "covers": ["early-wake-up"], "budget_s": {"quick": 900, "thorough": 7200}},
        {"name": "c07_election_2nodes_simultaneous", "fn": "c07_election", "params": {"quick": {"secondaries": 1, "triggers": 2, "deviations": 1, "budget": 600}, "thorough": {"secondaries": 1, "triggers": 2, "deviations": 1, "budget": 600}}, "budget_s": {"quick": 900, "thorough": 7200}},
    ],
    "bounds": {"quick": "cluster of 2 nodes (primary n1 older than n2) with the real start_election / election_eval / election_win / SetPrimary code; every connection handler is its own thread in cooperative mode (runs until it finishes or sleeps in an election wait loop), the real replication loops are polled, every node runs its REAL supervisor coroutine (start_replication_supervisor; only the TCP client loop start_replication is a stub that hands the connection to the harness); take-over variants: an older node n1 has joined a cluster led by n2 (2 and 3 nodes) and wins the forced election, the deposed primary stays; triggers: debug force-election on a solver-chosen node, or on two nodes at once, or a secondary claiming the primary role while the primary is alive (`election win`, what the timeout branches of start_election do: the primary must win the role back and every node must name it again); in the *_early_polls / rival_claim harnesses a handler sleeping in a wait loop may also wake up (2 ms poll) while lines are still in flight, up to 2 times (fewer than the 6 ticks of the election timeout used there); delivery order: dedicated threads first, then connections in link order, with up to 1 (quick; 2 thorough) solver-chosen deviations (2 in the rival-claim and take-over harnesses) to any other enabled event; a sleeping handler takes a timer tick only when nothing can be delivered; NUN_ELECTION_TIMEOUT = 2 ticks; local lemma (c07_pause_recheck): one candidate whose candidacy is acknowledged and which is turned secondary at a solver-chosen pause of start_election must not claim the primary role afterwards; at quiescence (within 600 scheduler steps; the longest run observed takes 161): exactly one primary, it is the older node, the other is secondary, both cluster-states name it",
               "thorough": "2 deviations in the 2-node forced election and in the 3-node take-over / rival-claim harnesses, 3 in the 2-node rival claim, 1 in the 3-node forced election"},
    "outside": "3-node clusters beyond the default delivery order (c07_election_3nodes: one order per trigger node; the forced election at the youngest node is the recorded finding C07-3nodes-youngest-trigger); node joins and primary death (need the supervisor's connection management, which is not sliced); lock-level preemption inside handlers",
    "assumptions": ["environment shims", "cooperative scheduling: handlers are not preempted between sleeps", "the link pump mirrors handle_client / start_replication"],
}

def _c18(name, q, t=None, covers=("snapshot.done",), thorough_only=False, budget=(900, 7200)):
    h = {"name": name, "fn": "c18_history", "params": {"quick": q, "thorough": q}, "covers": list(covers), "budget_s": {"quick": budget[0], "thorough": budget[1]}}
    if thorough_only: h["thorough_only"] = True
    return h
PROPS["C18"] = {
    "level": "model_checking",
    "kani": [{"name": "k_retry_rule"}],
    "harnesses": [
        _c18("c18_s3_persisted", {"strategy": 1, "prefix": 1, "ops": 2}, {"strategy": 1, "prefix": 1, "ops": 3}),
        _c18("c18_s3_fresh", {"strategy": 1, "prefix": 0, "ops": 3}, {"strategy": 1, "prefix": 0, "ops": 4}),
        _c18("c18_part1_persisted", {"strategy": 2, "partitions": 1, "prefix": 1, "ops": 2}, {"strategy": 2, "partitions": 1, "prefix": 1, "ops": 3}),
        _c18("c18_part1_fresh", {"strategy": 2, "partitions": 1, "prefix": 0, "ops": 3}, {"strategy": 2, "partitions": 1, "prefix": 0, "ops": 4}),
        _c18("c18_part3_persisted", {"strategy": 2, "partitions": 3, "prefix": 2, "ops": 2}),
        _c18("c18_part10_persisted", {"strategy": 2, "partitions": 10, "prefix": 2, "ops": 1}),
        _c18("c18_part2_restart_then_history", {"strategy": 2, "partitions": 2, "prefix": 1, "ops": 2, "restart_first": 1}, covers=("snapshot.done", "restart.first-done")),
        _c18("c18_s3_restart_then_history", {"strategy": 1, "prefix": 1, "ops": 2, "restart_first": 1}, covers=("snapshot.done", "restart.first-done")),
        _c18("c18_s3_put_fails_once", {"strategy": 1, "prefix": 1, "ops": 1, "fault": 1}, {"strategy": 1, "prefix": 1, "ops": 2, "fault": 1}, covers=("snapshot.done", "fault.put-failed")),
        _c18("c18_s3_put_fails_always", {"strategy": 1, "prefix": 1, "ops": 1, "fault": 2}, {"strategy": 1, "prefix": 1, "ops": 2, "fault": 2}, covers=("snapshot.done", "fault.put-failed")),
        _c18("c18_s3_get_fails_once", {"strategy": 1, "prefix": 1, "ops": 1, "fault": 3}, covers=("snapshot.done", "expected-panic:unwrap")),
        _c18("c18_part1_put_fails_once", {"strategy": 2, "partitions": 1, "prefix": 1, "ops": 1, "fault": 1}, {"strategy": 2, "partitions": 1, "prefix": 1, "ops": 2, "fault": 1}, covers=("snapshot.done", "fault.put-failed")),
        _c18("c18_part3_put_fails_once", {"strategy": 2, "partitions": 3, "prefix": 2, "ops": 1, "fault": 1}, covers=("snapshot.done", "fault.put-failed")),
        _c18("c18_part1_put_fails_always", {"strategy": 2, "partitions": 1, "prefix": 1, "ops": 1, "fault": 2}, {"strategy": 2, "partitions": 1, "prefix": 1, "ops": 2, "fault": 2}, covers=("snapshot.done", "expected-panic:Fail to store partition")),
        _c18("c18_part1_get_fails_once", {"strategy": 2, "partitions": 1, "prefix": 1, "ops": 1, "fault": 3}, {"strategy": 2, "partitions": 3, "prefix": 2, "ops": 1, "fault": 3}, covers=("snapshot.done", "fault.get-failed")),
        {"name": "c18_snapshot_race_s3", "fn": "c02_snapshot_race", "params": {"quick": {"strategy": 1}}, "covers": ["snapshot-race.done"]},
        {"name": "c18_snapshot_race_part1", "fn": "c02_snapshot_race", "params": {"quick": {"strategy": 2}}, "covers": ["snapshot-race.done"]},
        {"name": "c18_two_dbs_s3", "fn": "c18_two_dbs", "params": {"quick": {"strategy": 1}}},
        {"name": "c18_two_dbs_part1", "fn": "c18_two_dbs", "params": {"quick": {"strategy": 2, "partitions": 1}}},
        {"name": "c18_two_dbs_part3", "fn": "c18_two_dbs", "params": {"quick": {"strategy": 2, "partitions": 3}}},
    ],
    "bounds": {"quick": "strategies s3 and s3_patition (1, 3 and 10 partitions; the key hash is an uninterpreted function: every assignment of keys to partitions is a solver choice) against the in-process bucket of the aws-sdk-s3 shim; histories of 2-3 operations over {set k0 v, set key1 v, remove k0, remove key1, increment n 3, snapshot false, snapshot true} from an empty database and after a first phase persisted by a full snapshot (3 keys; 1 key for 3 and 10 partitions); values of 1-3 symbolic printable bytes; then restart (start_db sequence with load_all_dbs) and comparison with the reference map frozen at the last completed snapshot; the same histories on a node that was restarted after the first phase (its keys were loaded from the bucket; 2 partitions); stub faults: the n-th PUT fails once / fails always, the n-th GET fails once, n a solver integer; two databases whose names share a prefix (d, da) with different strategies",
               "thorough": "same (deeper bounds were not re-validated after the last engine changes)"},
    "outside": "more than 1000 objects per listing (pagination); read prefix different from write prefix; concurrent loader threads (each database is loaded to completion at the spawn point); the AWS SDK itself (credentials, regions, HTTP), real SipHash values (covered by the uninterpreted hash); multi-byte UTF-8 content",
    "assumptions": ["aws-sdk-s3 / aws-config / bytes / tokio shims: in-memory bucket listed in key order, futures ready at once, block_on = poll loop", "DefaultHasher = uninterpreted function (one solver integer per distinct content)", "thread::spawn runs the closure at the spawn point", "environment shims"],
}
