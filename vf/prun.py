"""parallel debug driver: python3 -m vf.prun <harness fn> [k=v ...] [deadline=SEC] [tl=ms]"""
import sys, time, pickle, os, multiprocessing as mp
from . import build, program, explore as ex_mod
def main():
    args = sys.argv[1:]; fn = args[0]
    params = dict(a.split('=', 1) for a in args[1:] if '=' in a)
    only = params.pop('only', None)
    deadline = int(params.pop('deadline', 600)); tl = int(params.pop('tl', 5000)); maxp = int(params.pop('maxpaths', 1000000))
    t = time.time()
    built = build.build_all(); prog = program.Program(built, build.VERIF); prog.texts = None
    pk = os.path.join(build.BUILD, "prog_prun.pkl"); pickle.dump(prog, open(pk, "wb"))
    pool = mp.Pool(int(os.environ.get("VERIF_JOBS", "16")), initializer=ex_mod._init, initargs=(pk, params, tl, 3_000_000, os.path.join(build.BUILD, "qlog")))
    try: ex = ex_mod.explore(pool, fn, max_paths=maxp, deadline=time.time() + deadline)
    finally: pool.terminate(); pool.join()
    print("paths", ex.paths, ex.status, "exhaustive", ex.exhausted, "steps", ex.steps, "queries", ex.queries, "solver %.1fs wall %.1fs" % (ex.solver_time, time.time() - t))
    print("tags", sorted(ex.tags.items(), key=lambda kv: -kv[1])[:45])
    agg = {}
    for st in getattr(ex, "solver_stats", {}).values():
        for k, v in st.items(): agg[k] = agg.get(k, 0) + v
    print("solver stats", {k: round(v, 1) for k, v in agg.items()})
    print("covers", sorted(ex.covers)); print("unknown branches", ex.unknown_branches)
    for k, v in list(ex.unsupported.items())[:12]: print("UNSUPPORTED x%d: %s" % (v, k[:300]))
    print("unsupported tags", getattr(ex, "unsupported_tags", {}))
    bad = {c: v for c, v in ex.checks.items() if v.get('violated') or v.get('unknown')}
    print("checks", len(ex.checks), "bad", bad)
    seen = set()
    for v in ex.violations:
        if only and only not in v['check']: continue
        k = (v['check'], tuple(v['tags']))
        if k in seen: continue
        seen.add(k)
        if len(seen) > 25: break
        print("VIOLATION", v['check'], v['tags'], [(i['name'], i['value']) for i in (v['inputs'] or [])][:14], 'sched', v['sched'][:30])
main()
