#!/usr/bin/env python3
"""prototype slicer: copies real source files with declared mechanical rewrites"""
import re, sys, os, shutil
REPO = os.environ.get("VERIF_REPO", "/repo") + "/src/lib"

def scan_end(src, i):
    """given index of an opening '{', return index just past matching '}' (string/comment aware)"""
    depth = 0
    n = len(src)
    while i < n:
        c = src[i]
        if c == '/' and src[i+1:i+2] == '/':
            i = src.index('\n', i)
            continue
        if c == '/' and src[i+1:i+2] == '*':
            i = src.index('*/', i) + 2
            continue
        if c == '"':
            i += 1
            while src[i] != '"':
                if src[i] == '\\': i += 1
                i += 1
            i += 1
            continue
        if c == "'":
            # char literal or lifetime
            m = re.match(r"'(\\.[^']*|[^'\\])'", src[i:])
            if m:
                i += m.end(); continue
            i += 1; continue
        if c == '{': depth += 1
        elif c == '}':
            depth -= 1
            if depth == 0: return i + 1
        i += 1
    raise Exception("unbalanced")

def drop_item(src, header_re):
    """remove an item (fn/mod) whose header matches header_re; also preceding attrs/doc lines"""
    m = re.search(header_re, src, re.M)
    if not m: raise Exception("item not found: " + header_re)
    start = m.start()
    # extend back over attribute / doc-comment lines
    lines_before = src[:start].split('\n')
    # last element is the partial current line prefix (should be whitespace)
    k = len(lines_before) - 1
    while k > 0 and re.match(r"\s*(#\[|///|/\*\*|\*|\*/)", lines_before[k-1]) and lines_before[k-1].strip() != "":
        k -= 1
    start = len('\n'.join(lines_before[:k])) + (1 if k > 0 else 0)
    brace = src.index('{', m.end() - 1)
    end = scan_end(src, brace)
    return src[:start] + src[end:]

def drop_tests(src):
    while True:
        m = re.search(r"^#\[cfg\(test\)\]\s*\nmod tests \{", src, re.M)
        if not m: return src
        brace = src.index('{', m.start())
        end = scan_end(src, brace)
        src = src[:m.start()] + src[end:]

def rewrite_std(src):
    src = re.sub(r"\bstd::", "vstd::", src)
    src = re.sub(r"\bcore::sync", "vstd::sync", src)
    return src

FILES = {
 "bo.rs": [], "db_ops.rs": [], "security.rs": [], "consensus_ops.rs": [], "parse_request.rs": [],
 "process_request.rs": [], "election_ops.rs": [], "monitoring.rs": [], "configuration.rs": [],
 "disk_ops.rs": [r"^pub fn declutter_scheduler\("], "storage/disk.rs": [], "storage/common.rs": [], "storage/s3.rs": [], "storage/s3_partition.rs": [],
 "replication_ops.rs": [
    r"^pub fn ask_to_join_all_replicas\(", r"^pub fn ask_to_join\(", r"^fn start_replication\(",
    r"^pub async fn auth_on_replication\(", r"^async fn start_sync_process\(",
 ],
 "network/http_ops.rs": [],
}
def generate(OUT):
    info = {"files": [], "dropped_items": [], "rewrites": ["std:: -> vstd::", "core::sync -> vstd::sync", "cfg(test) mod tests removed", "private items made pub(crate)-visible via pub"]}
    os.makedirs(OUT + "/src/storage", exist_ok=True)
    os.makedirs(OUT + "/src/network", exist_ok=True)
    for f, drops in FILES.items():
        src = open(os.path.join(REPO, f)).read()
        src = drop_tests(src)
        for d in drops:
            src = drop_item(src, d); info["dropped_items"].append(f + ": " + d)
        src = rewrite_std(src)
        src = make_pub(src)
        if f == "replication_ops.rs":
            # the TCP client loop is outside the slice: the connection a supervisor opens is handed to the harness and the thread
            # that would serve it ends (it would block on the socket for ever)
            src += """
/// slicer stub for the dropped `start_replication` (TCP client loop): registers the connection with the harness
pub fn start_replication(replicate_address: String, command_receiver: Receiver<String>, _user: String, _pwd: String, tcp_addr: String, is_primary: bool, _dbs: &Arc<Databases>) {
    crate::harness::cluster::register_connection(tcp_addr, replicate_address, is_primary, command_receiver);
    vsym::end_thread();
}
"""
            src = re.sub(r"^use async_std::.*\n", "", src, flags=re.M)
            src = re.sub(r"^use futures::(AsyncWriteExt|executor::block_on|join|io::AsyncBufReadExt);\n", "", src, flags=re.M)
        open(os.path.join(OUT, "src", f), "w").write(src)
        info["files"].append(f)
    open(OUT + "/src/storage/mod.rs", "w").write("pub mod common;\npub mod disk;\npub mod s3;\npub mod s3_partition;\n")
    open(OUT + "/src/network/mod.rs", "w").write("pub mod http_ops;\n")
    info["dropped_items"] += ["client/*", "command_line/*", "network/tcp_ops.rs", "network/ws_ops.rs", "replication_ops.rs: start_replication replaced by a stub that hands the connection to the harness"]
    open(OUT + "/src/lib.rs", "w").write("""#![allow(warnings)]
pub mod bo; pub mod configuration; pub mod consensus_ops; pub mod db_ops; pub mod disk_ops; pub mod election_ops;
pub mod monitoring; pub mod network; pub mod parse_request; pub mod process_request; pub mod replication_ops;
pub mod security; pub mod storage;
pub mod harness;
""")
    return info

def make_pub(src):
    """private top-level items and private methods of inherent impls become pub (harnesses reach private items)"""
    out = []; in_inherent = False
    for line in src.split("\n"):
        if re.match(r"^(fn|async fn|const|static|struct|enum) ", line): line = "pub " + line
        elif re.match(r"^impl\b", line): in_inherent = (" for " not in line)
        elif line.startswith("}"): in_inherent = False
        elif in_inherent and re.match(r"^    (fn|async fn) ", line): line = "    pub " + line[4:]
        out.append(line)
    return "\n".join(out)

if __name__ == "__main__":
    print(generate(sys.argv[1]))
