"""SMT back end. The path condition is kept in Python as a list of assertions with their free symbols.
Every query is reduced to its *independent slice* (the assertions transitively sharing a symbol with the queried
formula - the constraint-independence optimisation of KLEE): a path condition is the conjunction of slices over disjoint
symbols, so `slice /\\ q` unsat  =>  `pc /\\ q` unsat, and if the rest of the path condition is satisfiable (it is, unless a
solver `unknown` let an infeasible branch through - then only an infeasible path is explored, never a wrong verdict, because
models for violations are taken from the *full* path condition) `slice /\\ q` sat => `pc /\\ q` sat.
Slices recur across paths, so results are cached by slice text. Queries go to a persistent cvc5 process that is `(reset)`
between queries (no start-up cost); a query it cannot answer within the fast limit is re-run one-shot by cvc5 with the full
limit and then by z3 (5.1). `unknown` and any `(error` line are never treated as unsat."""
import subprocess, time, re, os, hashlib, select

CVC5 = ["cvc5", "--lang", "smt2", "--strings-exp"]
HEADER = "(set-logic ALL)\n(set-option :produce-models true)\n"
SYM = re.compile(r"[A-Za-z_][A-Za-z0-9_]*_\d+")

class Proc:
    """persistent cvc5, reset between queries"""
    def __init__(self, tlimit_ms):
        self.p = subprocess.Popen(CVC5 + ["--incremental", "--tlimit-per=%d" % tlimit_ms], stdin=subprocess.PIPE, stdout=subprocess.PIPE, stderr=subprocess.STDOUT, text=True, bufsize=1)
        self.n = 0
    def send(self, s): self.p.stdin.write(s + "\n"); self.p.stdin.flush()
    def readline(self, timeout):
        r, _, _ = select.select([self.p.stdout], [], [], timeout)
        if not r: return None
        return self.p.stdout.readline()
    def alive(self): return self.p.poll() is None
    def kill(self):
        try: self.p.kill(); self.p.wait(timeout=2)
        except Exception: pass

class Solver:
    def __init__(self, tlimit_ms=5000, log_dir=None, fast_ms=500):
        self.asserts = []       # (text, frozenset(symbols))
        self.sorts = {}         # symbol -> sort
        self.queries = 0; self.time = 0.0
        self.cache = {}; self.stats = {"sat": 0, "unsat": 0, "unknown": 0, "cached": 0, "oneshot": 0}
        self.tlimit = tlimit_ms; self.log_dir = log_dir; self.fast_ms = fast_ms
        self.proc = None
    # --- path condition
    def reset(self):
        self.asserts = []; self.sorts = {}
    def declare(self, name, sort): self.sorts[name] = sort
    def syms(self, t): return frozenset(s for s in SYM.findall(t) if s in self.sorts)
    def add(self, t): self.asserts.append((t, self.syms(t)))
    def slice_for(self, extra):
        """assertions transitively sharing symbols with `extra` (in original order)"""
        want = set()
        for e in extra: want |= self.syms(e)
        if not want: return [], want
        chosen = [False] * len(self.asserts)
        changed = True
        while changed:
            changed = False
            for i, (t, ss) in enumerate(self.asserts):
                if not chosen[i] and ss and (ss & want):
                    chosen[i] = True
                    if not ss <= want: want |= ss
                    changed = True
        return [self.asserts[i][0] for i in range(len(self.asserts)) if chosen[i]], want
    def script_of(self, asserts, syms, extra, tail=""):
        decls = "\n".join("(declare-fun %s () %s)" % (s, self.sorts[s]) for s in sorted(syms))
        return decls + "\n" + "\n".join("(assert %s)" % a for a in asserts) + "\n" + "\n".join("(assert %s)" % a for a in extra) + "\n(check-sat)\n" + tail
    def full_script(self, extra=(), tail=""):
        return HEADER + self.script_of([a for a, _ in self.asserts], set(self.sorts), extra, tail)
    # --- execution
    def _fast(self, body, names=None):
        try:
            if self.proc is None or not self.proc.alive() or self.proc.n > 4000:
                if self.proc: self.proc.kill()
                self.proc = Proc(self.fast_ms)
            pr = self.proc; pr.n += 1
            pr.send("(reset)\n" + HEADER + body)
            ln = pr.readline(self.fast_ms / 1000.0 + 5)
            if ln is None:
                pr.kill(); self.proc = None; return "unknown", None
            st = ln.strip()
            if st not in ("sat", "unsat"):
                if st.startswith("(error") or st == "": pr.kill(); self.proc = None
                return "unknown", None
            return st, None
        except (BrokenPipeError, OSError, ValueError):
            if self.proc: self.proc.kill()
            self.proc = None
            return "unknown", None
    def _oneshot(self, script):
        self.stats["oneshot"] += 1
        t0 = time.time()
        try:
            p = subprocess.run(CVC5 + ["--tlimit=%d" % self.tlimit], input=script, capture_output=True, text=True, timeout=self.tlimit / 1000.0 + 10)
            first = p.stdout.strip().split("\n")[0] if p.stdout.strip() else ""
            if first in ("sat", "unsat") and "(error" not in p.stdout:
                self.stats["cvc5_1"] = self.stats.get("cvc5_1", 0) + 1; self.stats["cvc5_1_s"] = self.stats.get("cvc5_1_s", 0) + time.time() - t0
                return p.stdout
        except subprocess.TimeoutExpired:
            pass
        self.stats["cvc5_1_fail_s"] = self.stats.get("cvc5_1_fail_s", 0) + time.time() - t0; t0 = time.time()
        try:
            p = subprocess.run(["z3-new", "-in", "-T:%d" % max(1, self.tlimit // 2000)], input=script, capture_output=True, text=True, timeout=self.tlimit / 2000.0 + 5)
            first = p.stdout.strip().split("\n")[0] if p.stdout.strip() else ""
            if first in ("sat", "unsat") and "(error" not in p.stdout:
                self.stats["z3"] = self.stats.get("z3", 0) + 1; self.stats["z3_s"] = self.stats.get("z3_s", 0) + time.time() - t0
                return p.stdout
        except (subprocess.TimeoutExpired, FileNotFoundError):
            pass
        self.stats["z3_fail_s"] = self.stats.get("z3_fail_s", 0) + time.time() - t0
        return "unknown\n"
    def check(self, extra=()):
        """sat / unsat / unknown for path condition + extra (decided on the independent slice)"""
        self.queries += 1
        extra = tuple(extra)
        if extra:
            asserts, syms = self.slice_for(extra)
        else:
            asserts, syms = [a for a, _ in self.asserts], set(self.sorts)
        body = self.script_of(asserts, syms, extra)
        r = self.cache.get(body)
        if r is not None:
            self.stats["cached"] += 1; return r
        t = time.time()
        st, _ = self._fast(body)
        self.stats["fast_s"] = self.stats.get("fast_s", 0) + time.time() - t
        if st == "unknown":
            out = self._oneshot(HEADER + body)
            first = out.strip().split("\n")[0] if out.strip() else "unknown"
            if "(error" in out or first not in ("sat", "unsat"): first = "unknown"
            st = first
            if self.log_dir and st == "unknown":
                os.makedirs(self.log_dir, exist_ok=True)
                open(os.path.join(self.log_dir, "unknown_%s.smt2" % hashlib.sha1(body.encode()).hexdigest()[:10]), "w").write(HEADER + body)
        self.time += time.time() - t
        self.cache[body] = st; self.stats[st] += 1
        return st
    def model(self, names, extra=()):
        """returns (status, {name: python value}) for the FULL path condition + extra"""
        if not names:
            return self.check(extra), {}
        self.queries += 1
        t = time.time()
        script = self.full_script(extra, "(get-value (%s))\n" % " ".join(names))
        st = "unknown"; mt = None
        try:
            p = subprocess.run(CVC5 + ["--tlimit=%d" % self.tlimit], input=script, capture_output=True, text=True, timeout=self.tlimit / 1000.0 + 10)
            out = p.stdout
        except subprocess.TimeoutExpired:
            out = "unknown\n"
        lines = out.strip().split("\n")
        first = lines[0] if lines else "unknown"
        if first == "sat" and "(error" not in out: st, mt = "sat", " ".join(lines[1:])
        elif first == "unsat": st = "unsat"
        else:
            try:
                p = subprocess.run(["z3-new", "-in", "-T:%d" % max(1, self.tlimit // 1000)], input=script, capture_output=True, text=True, timeout=self.tlimit / 1000.0 + 5)
                lines = p.stdout.strip().split("\n"); first = lines[0] if lines else ""
                if first == "sat" and "(error" not in p.stdout: st, mt = "sat", " ".join(lines[1:])
                elif first == "unsat": st = "unsat"
            except (subprocess.TimeoutExpired, FileNotFoundError):
                pass
        self.time += time.time() - t
        if st != "sat": return st, {}
        return "sat", parse_model(mt or "")

def parse_model(txt):
    """((a 1) (b (- 2)) (s "x""y") (t true))"""
    vals = {}
    i = 0; n = len(txt)
    toks = []
    while i < n:
        c = txt[i]
        if c in "()": toks.append(c); i += 1
        elif c == '"':
            j = i + 1; buf = []
            while True:
                if txt[j] == '"':
                    if j + 1 < n and txt[j + 1] == '"': buf.append('"'); j += 2; continue
                    break
                buf.append(txt[j]); j += 1
            toks.append(("str", "".join(buf))); i = j + 1
        elif c.isspace(): i += 1
        else:
            j = i
            while j < n and not txt[j].isspace() and txt[j] not in "()": j += 1
            toks.append(txt[i:j]); i = j
    pos = [0]
    def sexp():
        t = toks[pos[0]]; pos[0] += 1
        if t == "(":
            lst = []
            while toks[pos[0]] != ")": lst.append(sexp())
            pos[0] += 1; return lst
        return t
    try:
        top = sexp()
    except IndexError:
        return vals
    def ev(e):
        if isinstance(e, tuple): return unescape(e[1])
        if isinstance(e, list):
            if len(e) == 2 and e[0] == "-": return -ev(e[1])
            if len(e) == 3 and e[0] == "/": return ev(e[1]) / ev(e[2])
            return None
        if e == "true": return True
        if e == "false": return False
        try: return int(e)
        except ValueError: return e
    for pair in top:
        if isinstance(pair, list) and len(pair) == 2 and isinstance(pair[0], str): vals[pair[0]] = ev(pair[1])
    return vals

def unescape(s):
    return re.sub(r"\\u\{([0-9a-fA-F]+)\}", lambda m: chr(int(m.group(1), 16)), s)
