"""SMT back end: the path condition is kept in Python; every query is a one-shot cvc5 run with a time limit
(measured faster and more predictable on string constraints than a long-lived incremental process)."""
import subprocess, time, re, os, hashlib

CVC5 = ["cvc5", "--lang", "smt2", "--strings-exp"]

class Solver:
    def __init__(self, tlimit_ms=5000, log_dir=None):
        self.decls = []; self.asserts = []; self.marks = []
        self.queries = 0; self.time = 0.0; self.cache = {}; self.stats = {"sat": 0, "unsat": 0, "unknown": 0, "cached": 0}
        self.tlimit = tlimit_ms; self.log_dir = log_dir; self.declared = set()
    def reset(self):
        self.decls = []; self.asserts = []; self.declared = set()
    def declare(self, name, sort):
        if name not in self.declared:
            self.declared.add(name); self.decls.append("(declare-fun %s () %s)" % (name, sort))
    def add(self, t): self.asserts.append(t)
    def script(self, extra_asserts=(), tail=""):
        return ("(set-logic ALL)\n(set-option :produce-models true)\n" + "\n".join(self.decls) + "\n" +
                "\n".join("(assert %s)" % a for a in self.asserts) + "\n" + "\n".join("(assert %s)" % a for a in extra_asserts) + "\n(check-sat)\n" + tail)
    def run(self, script):
        t = time.time()
        try:
            p = subprocess.run(CVC5 + ["--tlimit=%d" % self.tlimit], input=script, capture_output=True, text=True, timeout=self.tlimit / 1000.0 + 10)
            out = p.stdout
        except subprocess.TimeoutExpired:
            out = "unknown\n"
        self.time += time.time() - t
        return out
    def check(self, extra=()):
        """sat / unsat / unknown for path condition + extra"""
        self.queries += 1
        s = self.script(extra)
        r = self.cache.get(s)
        if r is not None:
            self.stats["cached"] += 1; return r
        out = self.run(s)
        first = out.strip().split("\n")[0] if out.strip() else "unknown"
        if "(error" in out or first not in ("sat", "unsat"): first = "unknown"
        self.cache[s] = first; self.stats[first] += 1
        if self.log_dir and first == "unknown":
            os.makedirs(self.log_dir, exist_ok=True)
            open(os.path.join(self.log_dir, "unknown_%s.smt2" % hashlib.sha1(s.encode()).hexdigest()[:10]), "w").write(s)
        return first
    def model(self, names, extra=()):
        """returns (status, {name: python value}) for path condition + extra"""
        if not names:
            return self.check(extra), {}
        self.queries += 1
        out = self.run(self.script(extra, "(get-value (%s))\n" % " ".join(names)))
        lines = out.strip().split("\n")
        first = lines[0] if lines else "unknown"
        if "(error" in out and first != "sat": return "unknown", {}
        if first != "sat": return (first if first == "unsat" else "unknown"), {}
        return "sat", parse_model(" ".join(lines[1:]))

def parse_model(txt):
    """((a 1) (b (- 2)) (s "x""y") (t true))"""
    vals = {}
    i = 0; n = len(txt)
    # tokenise
    toks = []
    while i < n:
        c = txt[i]
        if c in "()": toks.append(c); i += 1
        elif c == '"':
            j = i + 1; buf = []
            while True:
                if txt[j] == '"':
                    if j + 1 < n and txt[j + 1] == '"': buf.append('"'); j += 2; continue
                    break
                buf.append(txt[j]); j += 1
            toks.append(("str", "".join(buf))); i = j + 1
        elif c.isspace(): i += 1
        else:
            j = i
            while j < n and not txt[j].isspace() and txt[j] not in "()": j += 1
            toks.append(txt[i:j]); i = j
    pos = [0]
    def sexp():
        t = toks[pos[0]]; pos[0] += 1
        if t == "(":
            lst = []
            while toks[pos[0]] != ")": lst.append(sexp())
            pos[0] += 1; return lst
        return t
    try:
        top = sexp()
    except IndexError:
        return vals
    def ev(e):
        if isinstance(e, tuple): return unescape(e[1])
        if isinstance(e, list):
            if len(e) == 2 and e[0] == "-": return -ev(e[1])
            if len(e) == 3 and e[0] == "/": return ev(e[1]) / ev(e[2])
            return None
        if e == "true": return True
        if e == "false": return False
        try: return int(e)
        except ValueError: return e
    for pair in top:
        if isinstance(pair, list) and len(pair) == 2 and isinstance(pair[0], str): vals[pair[0]] = ev(pair[1])
    return vals

def unescape(s):
    return re.sub(r"\\u\{([0-9a-fA-F]+)\}", lambda m: chr(int(m.group(1), 16)), s)
