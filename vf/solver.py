"""SMT back end. The path condition is kept in Python. Queries go first to a persistent `cvc5 --incremental` process
(short per-query limit; removes the process start-up cost that dominates thousands of small queries); a query it cannot
answer in that limit (string-heavy ones stall in incremental mode) is re-run one-shot with the full time limit.
`unknown` and any `(error` line are never treated as unsat."""
import subprocess, time, re, os, hashlib, select

CVC5 = ["cvc5", "--lang", "smt2", "--strings-exp"]
HEADER = "(set-logic ALL)\n(set-option :produce-models true)\n"

class Inc:
    """persistent incremental cvc5"""
    def __init__(self, tlimit_ms):
        self.p = subprocess.Popen(CVC5 + ["--incremental", "--tlimit-per=%d" % tlimit_ms], stdin=subprocess.PIPE, stdout=subprocess.PIPE, stderr=subprocess.STDOUT, text=True, bufsize=1)
        self.tl = tlimit_ms
        self.send(HEADER); self.send("(push 1)")
    def send(self, s): self.p.stdin.write(s + "\n"); self.p.stdin.flush()
    def readline(self, timeout):
        r, _, _ = select.select([self.p.stdout], [], [], timeout)
        if not r: return None
        return self.p.stdout.readline()
    def alive(self): return self.p.poll() is None
    def kill(self):
        try: self.p.kill(); self.p.wait(timeout=2)
        except Exception: pass

class Solver:
    def __init__(self, tlimit_ms=5000, log_dir=None, fast_ms=400):
        self.items = []; self.hash = 0
        self.queries = 0; self.time = 0.0; self.cache = {}; self.stats = {"sat": 0, "unsat": 0, "unknown": 0, "cached": 0, "oneshot": 0}
        self.tlimit = tlimit_ms; self.log_dir = log_dir; self.declared = set(); self.fast_ms = fast_ms
        self.inc = None; self.sent = 0
    # --- path condition
    def reset(self):
        self.items = []; self.declared = set(); self.hash = 0
        if self.inc is not None and self.inc.alive():
            try: self.inc.send("(pop 1)\n(push 1)")
            except Exception: self.inc.kill(); self.inc = None
        self.sent = 0
    def declare(self, name, sort):
        if name not in self.declared:
            self.declared.add(name); self._add("(declare-fun %s () %s)" % (name, sort))
    def add(self, t): self._add("(assert %s)" % t)
    def _add(self, item):
        self.items.append(item); self.hash = hash((self.hash, item))
    def script(self, extra=(), tail=""):
        return HEADER + "\n".join(self.items) + "\n" + "\n".join("(assert %s)" % a for a in extra) + "\n(check-sat)\n" + tail
    # --- incremental attempt
    def _inc_query(self, extra, names=None):
        """returns (status, model_text|None); status in sat/unsat/unknown"""
        try:
            if self.inc is None or not self.inc.alive():
                self.inc = Inc(self.fast_ms); self.sent = 0
            inc = self.inc
            if self.sent < len(self.items):
                inc.send("\n".join(self.items[self.sent:])); self.sent = len(self.items)
            q = "(push 1)\n" + "\n".join("(assert %s)" % a for a in extra) + "\n(check-sat)"
            inc.send(q)
            ln = inc.readline(self.fast_ms / 1000.0 + 5)
            if ln is None:
                inc.kill(); self.inc = None; return "unknown", None
            st = ln.strip()
            if st not in ("sat", "unsat"):
                # error or unknown: drain nothing more (one line per check-sat), resync by restarting on errors
                if st.startswith("(error") or st == "":
                    inc.kill(); self.inc = None; return "unknown", None
                inc.send("(pop 1)"); return "unknown", None
            mt = None
            if st == "sat" and names:
                inc.send("(get-value (%s))" % " ".join(names))
                buf = ""; depth = 0
                while True:
                    l2 = inc.readline(10)
                    if l2 is None: inc.kill(); self.inc = None; return "unknown", None
                    buf += l2; depth += l2.count("(") - l2.count(")")
                    if depth <= 0 and buf.strip(): break
                if "(error" in buf: inc.kill(); self.inc = None; return "unknown", None
                mt = buf
            inc.send("(pop 1)")
            return st, mt
        except (BrokenPipeError, OSError, ValueError):
            if self.inc: self.inc.kill()
            self.inc = None
            return "unknown", None
    def _oneshot(self, script):
        """portfolio for queries the incremental process could not answer quickly: z3 (new) first, then cvc5 with the full limit"""
        self.stats["oneshot"] += 1
        t0 = time.time()
        try:
            p = subprocess.run(["z3-new", "-in", "-T:%d" % max(1, self.tlimit // 2000)], input=script, capture_output=True, text=True, timeout=self.tlimit / 2000.0 + 5)
            first = p.stdout.strip().split("\n")[0] if p.stdout.strip() else ""
            if first in ("sat", "unsat") and "(error" not in p.stdout:
                self.stats["z3"] = self.stats.get("z3", 0) + 1; self.stats["z3_s"] = self.stats.get("z3_s", 0) + time.time() - t0
                return p.stdout
        except (subprocess.TimeoutExpired, FileNotFoundError):
            pass
        self.stats["z3_fail_s"] = self.stats.get("z3_fail_s", 0) + time.time() - t0; t1 = time.time()
        try:
            p = subprocess.run(CVC5 + ["--tlimit=%d" % self.tlimit], input=script, capture_output=True, text=True, timeout=self.tlimit / 1000.0 + 10)
            return p.stdout
        except subprocess.TimeoutExpired:
            return "unknown\n"
    def check(self, extra=()):
        """sat / unsat / unknown for path condition + extra"""
        self.queries += 1
        key = (self.hash, tuple(extra))
        r = self.cache.get(key)
        if r is not None:
            self.stats["cached"] += 1; return r
        t = time.time()
        st, _ = self._inc_query(extra)
        self.stats["inc_s"] = self.stats.get("inc_s", 0) + time.time() - t
        if st == "unknown":
            s = self.script(extra)
            out = self._oneshot(s)
            first = out.strip().split("\n")[0] if out.strip() else "unknown"
            if "(error" in out or first not in ("sat", "unsat"): first = "unknown"
            st = first
            if self.log_dir and st == "unknown":
                os.makedirs(self.log_dir, exist_ok=True)
                open(os.path.join(self.log_dir, "unknown_%s.smt2" % hashlib.sha1(s.encode()).hexdigest()[:10]), "w").write(s)
        self.time += time.time() - t
        self.cache[key] = st; self.stats[st] += 1
        return st
    def model(self, names, extra=()):
        """returns (status, {name: python value}) for path condition + extra"""
        if not names:
            return self.check(extra), {}
        self.queries += 1
        t = time.time()
        st, mt = self._inc_query(extra, names)
        if st == "unknown":
            out = self._oneshot(self.script(extra, "(get-value (%s))\n" % " ".join(names)))
            lines = out.strip().split("\n")
            first = lines[0] if lines else "unknown"
            if first == "sat" and "(error" not in out: st, mt = "sat", " ".join(lines[1:])
            elif first == "unsat": st = "unsat"
            else: st = "unknown"
        self.time += time.time() - t
        if st != "sat": return st, {}
        return "sat", parse_model(mt or "")

def parse_model(txt):
    """((a 1) (b (- 2)) (s "x""y") (t true))"""
    vals = {}
    i = 0; n = len(txt)
    toks = []
    while i < n:
        c = txt[i]
        if c in "()": toks.append(c); i += 1
        elif c == '"':
            j = i + 1; buf = []
            while True:
                if txt[j] == '"':
                    if j + 1 < n and txt[j + 1] == '"': buf.append('"'); j += 2; continue
                    break
                buf.append(txt[j]); j += 1
            toks.append(("str", "".join(buf))); i = j + 1
        elif c.isspace(): i += 1
        else:
            j = i
            while j < n and not txt[j].isspace() and txt[j] not in "()": j += 1
            toks.append(txt[i:j]); i = j
    pos = [0]
    def sexp():
        t = toks[pos[0]]; pos[0] += 1
        if t == "(":
            lst = []
            while toks[pos[0]] != ")": lst.append(sexp())
            pos[0] += 1; return lst
        return t
    try:
        top = sexp()
    except IndexError:
        return vals
    def ev(e):
        if isinstance(e, tuple): return unescape(e[1])
        if isinstance(e, list):
            if len(e) == 2 and e[0] == "-": return -ev(e[1])
            if len(e) == 3 and e[0] == "/": return ev(e[1]) / ev(e[2])
            return None
        if e == "true": return True
        if e == "false": return False
        try: return int(e)
        except ValueError: return e
    for pair in top:
        if isinstance(pair, list) and len(pair) == 2 and isinstance(pair[0], str): vals[pair[0]] = ev(pair[1])
    return vals

def unescape(s):
    return re.sub(r"\\u\{([0-9a-fA-F]+)\}", lambda m: chr(int(m.group(1), 16)), s)
