"""cooperative green threads for the spike: python threads + baton; scheduler choices are forks"""
import threading, sys
from mirsym import *
import models

class AbortPath(Exception): pass

class Sched:
    def __init__(self, ip):
        self.ip = ip; self.cv = threading.Condition(); self.reset()
    def reset(self):
        self.threads = {0: {'done': False, 'result': None, 'waiting': None}}; self.current = 0; self.abort = None; self.nswitch = 0
    def runnable(self):
        out = []
        for tid, t in self.threads.items():
            if t['done']: continue
            w = t['waiting']
            if w is not None and not self.threads[w]['done']: continue
            out.append(tid)
        return out
    def choose(self, options):
        """fork over scheduler options (all feasible): decision entries are ints"""
        ip = self.ip
        if len(options) == 1: return options[0]
        if ip.dpos < len(ip.decisions):
            d = ip.decisions[ip.dpos]; ip.dpos += 1; return options[d]
        for alt in range(1, len(options)): ip.worklist.append(ip.decisions[:ip.dpos] + [alt])
        ip.decisions = ip.decisions[:ip.dpos] + [0]; ip.dpos += 1
        return options[0]
    def switch(self, me):
        """called with baton held by `me` at a yield point"""
        if self.abort: raise AbortPath()
        r = self.runnable()
        if not r:
            self.abort = Panic("deadlock: no runnable thread"); 
            with self.cv: self.cv.notify_all()
            raise AbortPath()
        nxt = self.choose(r)
        if nxt != me:
            self.nswitch += 1
            with self.cv:
                self.current = nxt; self.cv.notify_all()
                while self.current != me and not self.abort: self.cv.wait()
            if self.abort: raise AbortPath()
    def spawn(self, closure):
        tid = len(self.threads); self.threads[tid] = {'done': False, 'result': None, 'waiting': None}
        def body():
            with self.cv:
                while self.current != tid and not self.abort: self.cv.wait()
            try:
                if self.abort: raise AbortPath()
                tl.cur_crate = 'nsym'
                self.threads[tid]['result'] = self.ip.call_value(closure, [])
            except AbortPath: pass
            except BaseException as e:
                self.abort = e
            self.threads[tid]['done'] = True
            # hand over
            r = self.runnable()
            with self.cv:
                if self.abort or not r: self.current = 0
                else:
                    try: self.current = self.choose(r)
                    except BaseException as e: self.abort = e; self.current = 0
                self.cv.notify_all()
        th = threading.Thread(target=body, daemon=True); th.mtid = tid; self.threads[tid]['py'] = th; th.start()
        return tid
    def join(self, me, tid):
        self.threads[me]['waiting'] = tid
        while not self.threads[tid]['done']:
            self.switch(me)
        self.threads[me]['waiting'] = None
        if self.abort: raise AbortPath()
        return self.threads[tid]['result']
    def me(self): return getattr(tl, 'tid', 0)

tl = threading.local()

def install(ip):
    sched = Sched(ip); ip.sched = sched
    def m_spawn(ip, c, a):
        tid_holder = {}
        clo = a[0]
        real_spawn = sched.spawn
        tid = len(sched.threads)
        # wrap to set thread-local tid
        orig_call = ip.call_value
        def start():
            pass
        t = real_spawn(clo)
        return Agg('Handle', None, [Cell(t)])
    def m_join(ip, c, a):
        return sched.join(current_tid(), a[0].fields[0].v)
    def m_yield(ip, c, a):
        sched.switch(current_tid()); return UNIT
    ip.models['vsym::spawn'] = m_spawn; ip.models['spawn'] = m_spawn
    ip.models['vsym::join'] = m_join; ip.models['join'] = m_join
    ip.models['yield_point'] = m_yield; ip.models['vstd::vclock::yield_point'] = m_yield; ip.models['crate::vclock::yield_point'] = m_yield; ip.models['vclock::yield_point'] = m_yield

def current_tid():
    sched = None
    th = threading.current_thread()
    return getattr(th, 'mtid', 0)
